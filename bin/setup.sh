#!/bin/sh
# Offline setup: make sure hypothesis (and atheris for the fuzz targets) are importable.
HERE="$(cd "$(dirname "$0")/.." && pwd)"
mkdir -p "$HERE/.deps" "$HERE/evidence"
chmod +x "$HERE/tools/bin/ruff" "$HERE/bin/check" 2>/dev/null
WH=/opt/veriftools/wheels
if ! /venv/bin/python -c "import hypothesis" 2>/dev/null; then
  /venv/bin/pip install --no-index --find-links "$WH" --target "$HERE/.deps" hypothesis >/dev/null 2>&1 || echo "setup: hypothesis install failed" >&2
fi
if ! PYTHONPATH="$HERE/.deps" /venv/bin/python -c "import atheris" 2>/dev/null; then
  /venv/bin/pip install --no-index --find-links "$WH" --target "$HERE/.deps" atheris >/dev/null 2>&1 || echo "setup: atheris not installed (fuzz targets fall back to hypothesis)" >&2
fi
PYTHONPATH="$HERE/.deps" /venv/bin/python -c "import hypothesis; print('setup ok: hypothesis', hypothesis.__version__)"
