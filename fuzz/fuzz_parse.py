#!/venv/bin/python
"""atheris (libFuzzer) target for C17/C16: coverage-guided search over byte strings fed to Message.parse.

Input layout: byte 0 selects the corpus message type, the rest is the wire data.  The semantic oracle is inside
the target: decode must raise or return a message whose fields have their declared types, that can be encoded
again, and whose re-encoding decodes to the same bytes again (idempotence).  A violation raises OracleViolation,
which libFuzzer records as a crash file; the caller (vf/fuzz.py) turns crash files into ordinary replayable cases.
"""
import os
import sys

HERE = os.path.dirname(os.path.dirname(os.path.abspath(__file__)))
sys.path.insert(0, HERE)
from vf import env  # noqa: E402

env.setup_path()
import atheris  # noqa: E402

NAMES = ["Scalars", "Optionals", "Repeats", "Maps", "Oneofs", "Wrappers", "Times", "Tags", "Rec", "Leaf", "Mixed"]


class OracleViolation(Exception):
    pass


def main():
    with atheris.instrument_imports(include=["betterproto"]):
        import betterproto  # noqa: F401
    from vf.props._corpus import corpus
    from vf.props.c17 import walk

    c = corpus()
    classes = [c.bp(n) for n in NAMES]

    def TestOneInput(data: bytes):
        if not data:
            return
        cls = classes[data[0] % len(classes)]
        payload = data[1:]
        try:
            m = cls().parse(payload)
        except RecursionError:
            return
        except Exception:  # rejecting is always allowed
            return
        bad = walk(m)
        if bad:
            raise OracleViolation(f"field_of_wrong_type: {bad}")
        try:
            b = bytes(m)
        except Exception as e:  # noqa: BLE001
            raise OracleViolation(f"returned_message_not_encodable: {type(e).__name__}: {e}")
        try:
            b2 = bytes(cls().parse(b))
        except Exception as e:  # noqa: BLE001
            raise OracleViolation(f"reencoding_not_decodable: {type(e).__name__}: {e}")
        if b2 != b:
            raise OracleViolation("reencoding_not_idempotent")
        if len(m) != len(b):
            raise OracleViolation("len_vs_bytes")

    atheris.Setup(sys.argv, TestOneInput)
    atheris.Fuzz()


if __name__ == "__main__":
    main()
