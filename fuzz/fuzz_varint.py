#!/venv/bin/python
"""atheris target for C16: decode_varint / load_varint on arbitrary bytes vs the spec decoder."""
import os
import sys
from io import BytesIO

HERE = os.path.dirname(os.path.dirname(os.path.abspath(__file__)))
sys.path.insert(0, HERE)
from vf import env  # noqa: E402

env.setup_path()
import atheris  # noqa: E402


class OracleViolation(Exception):
    pass


def main():
    with atheris.instrument_imports(include=["betterproto"]):
        import betterproto as bp
    from vf.props.c16 import check_decode, check_int

    def TestOneInput(data: bytes):
        fl, kind, canonical = check_decode(bp, data[:12])
        if fl:
            raise OracleViolation(f"{fl[0][0]}: {fl[0][1]}")
        if len(data) >= 9:
            x = int.from_bytes(data[:9], "little", signed=True) % (1 << 65) - (1 << 63)
            if -(1 << 63) <= x < (1 << 64):
                bad = check_int(bp, x)
                if bad:
                    raise OracleViolation(f"{bad[0][0]}: {bad[0][1]}")

    atheris.Setup(sys.argv, TestOneInput)
    atheris.Fuzz()


if __name__ == "__main__":
    main()
