#!/usr/bin/env python3
"""usage: tools/import_round.py <round> <ID>...  - confirm the two changes of /tmp/r<round>/out/<ID> (tools/confirm_seeded2.sh:
applies to a scratch worktree of /repo HEAD, pinned suite summary unchanged, demo passes without / fails with the change)
and import the confirmed ones as seeded/<ID>_<2*round-1> and seeded/<ID>_<2*round> (patch.diff, demo.py, meta.json)."""
import json, os, shutil, subprocess, sys
HERE = os.path.dirname(os.path.dirname(os.path.abspath(__file__)))
BASE = subprocess.check_output(["git", "-C", "/repo", "rev-parse", "--short", "HEAD"], text=True).strip()
OK_TESTS = "193 passed"
ROUND = int(sys.argv[1])
for pid in sys.argv[2:]:
    d = f"/tmp/r{ROUND}/out/{pid}"
    summ = json.load(open(f"{d}/summary.json"))
    for k in ("1", "2"):
        out = subprocess.run([f"{HERE}/tools/confirm_seeded2.sh", d, k, BASE], capture_output=True, text=True).stdout.strip().splitlines()
        r = json.loads(out[-1]) if out else {"applies": False}
        ok = r.get("applies") and OK_TESTS in r.get("tests", "") and "9 failed" in r.get("tests", "") and r.get("demo_rc_clean") == 0 and r.get("demo_rc_mutant") not in (0, None)
        print(pid, k, "CONFIRMED" if ok else "REJECTED", r)
        if not ok:
            continue
        sid = f"{pid}_{2 * ROUND - 2 + int(k)}"
        dst = f"{HERE}/seeded/{sid}"
        os.makedirs(dst, exist_ok=True)
        shutil.copy(f"{d}/patch{k}.diff", f"{dst}/patch.diff")
        shutil.copy(f"{d}/demo{k}.py", f"{dst}/demo.py")
        s = summ[k]
        meta = {"property": pid, "round": ROUND, "breaks": s["breaks"], "needs_to_manifest": s["needs_to_manifest"], "files": s.get("files", []),
                "origin": f"independent sub-agent (round {ROUND}) given only the property text, one-line summaries of the earlier changes of this property as 'already taken', and a scratch worktree of /repo at " + BASE,
                "confirmed": {"base_commit": BASE, "ran": "tools/confirm_seeded2.sh", "tests_summary_with_change": r["tests"],
                              "demo_rc_without_change": r["demo_rc_clean"], "demo_rc_with_change": r["demo_rc_mutant"]},
                "detected_by": None}
        json.dump(meta, open(f"{dst}/meta.json", "w"), indent=1)
