#!/usr/bin/env python3
"""usage: adapt_patch.py <seeded dir> <file relative to repo> <<< JSON [[old, new], ...]
Writes <seeded dir>/patch_head.diff = the same mutation expressed against /repo HEAD."""
import json, os, subprocess, sys, tempfile
d, rel = sys.argv[1], sys.argv[2]
subs = json.load(sys.stdin)
wt = tempfile.mkdtemp(prefix="vf_adapt_")
os.rmdir(wt)
subprocess.check_call(["git", "-C", "/repo", "worktree", "add", "--detach", wt, "HEAD"], stdout=subprocess.DEVNULL, stderr=subprocess.DEVNULL)
try:
    p = os.path.join(wt, rel)
    s = open(p).read()
    for old, new in subs:
        assert s.count(old) == 1, (s.count(old), old)
        s = s.replace(old, new)
    open(p, "w").write(s)
    diff = subprocess.check_output(["git", "-C", wt, "diff"])
    open(os.path.join(d, "patch_head.diff"), "wb").write(diff)
    print("wrote", os.path.join(d, "patch_head.diff"), len(diff), "bytes")
finally:
    subprocess.call(["git", "-C", "/repo", "worktree", "remove", "--force", wt], stdout=subprocess.DEVNULL, stderr=subprocess.DEVNULL)
