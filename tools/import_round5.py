#!/usr/bin/env python3
"""usage: tools/import_round5.py <ID>...  - confirm the two round-5 changes of /tmp/r5/out/<ID> (tools/confirm_seeded2.sh:
applies to a scratch worktree of /repo HEAD, pinned suite summary unchanged, demo passes without / fails with the change)
and import the confirmed ones as seeded/<ID>_9 and seeded/<ID>_10 (patch.diff, demo.py, meta.json)."""
import json, os, shutil, subprocess, sys
HERE = os.path.dirname(os.path.dirname(os.path.abspath(__file__)))
BASE = subprocess.check_output(["git", "-C", "/repo", "rev-parse", "--short", "HEAD"], text=True).strip()
OK_TESTS = "193 passed"
for pid in sys.argv[1:]:
    d = f"/tmp/r5/out/{pid}"
    summ = json.load(open(f"{d}/summary.json"))
    for k in ("1", "2"):
        out = subprocess.run([f"{HERE}/tools/confirm_seeded2.sh", d, k, BASE], capture_output=True, text=True).stdout.strip().splitlines()
        r = json.loads(out[-1]) if out else {"applies": False}
        ok = r.get("applies") and OK_TESTS in r.get("tests", "") and "9 failed" in r.get("tests", "") and r.get("demo_rc_clean") == 0 and r.get("demo_rc_mutant") not in (0, None)
        print(pid, k, "CONFIRMED" if ok else "REJECTED", r)
        if not ok:
            continue
        sid = f"{pid}_{8 + int(k)}"
        dst = f"{HERE}/seeded/{sid}"
        os.makedirs(dst, exist_ok=True)
        shutil.copy(f"{d}/patch{k}.diff", f"{dst}/patch.diff")
        shutil.copy(f"{d}/demo{k}.py", f"{dst}/demo.py")
        s = summ[k]
        meta = {"property": pid, "round": 5, "breaks": s["breaks"], "needs_to_manifest": s["needs_to_manifest"], "files": s.get("files", []),
                "origin": "independent sub-agent (round 5) given only the property text, one-line summaries of the 8 earlier changes of this property as 'already taken', and a scratch worktree of /repo at " + BASE,
                "confirmed": {"base_commit": BASE, "ran": "tools/confirm_seeded2.sh", "tests_summary_with_change": r["tests"],
                              "demo_rc_without_change": r["demo_rc_clean"], "demo_rc_with_change": r["demo_rc_mutant"]},
                "detected_by": None}
        json.dump(meta, open(f"{dst}/meta.json", "w"), indent=1)
