#!/bin/sh
# usage: tools/confirm_seeded2.sh <dir with patchK.diff demoK.py> <K> <base commit>  -> one JSON line
# Same as confirm_seeded.sh but against a given base commit of /repo (round-2 changes were written against a repaired HEAD).
D="$1"; K="$2"; BASE="$3"
WT="/tmp/vf_conf2_$$"
git -C /repo worktree add --detach "$WT" "$BASE" >/dev/null 2>&1 || exit 2
trap 'git -C /repo worktree remove --force "$WT" >/dev/null 2>&1; rm -rf "$WT"' EXIT
cd "$WT" || exit 2
PYTHONPATH="$WT/src" PATH=/tmp/tools/bin:/venv/bin:$PATH /venv/bin/python "$D/demo$K.py" >/dev/null 2>&1; RC_CLEAN=$?
git apply "$D/patch$K.diff" || { echo "{\"dir\":\"$D\",\"k\":$K,\"applies\":false}"; exit 0; }
TESTS="$(PYTHONPATH="$WT/src" /venv/bin/python -m pytest -q -p no:cacheprovider --timeout=900 --continue-on-collection-errors 2>&1 | tail -1)"
PYTHONPATH="$WT/src" PATH=/tmp/tools/bin:/venv/bin:$PATH /venv/bin/python "$D/demo$K.py" >/dev/null 2>&1; RC_MUT=$?
echo "{\"dir\":\"$D\",\"k\":$K,\"applies\":true,\"base\":\"$BASE\",\"tests\":\"$TESTS\",\"demo_rc_clean\":$RC_CLEAN,\"demo_rc_mutant\":$RC_MUT}"
