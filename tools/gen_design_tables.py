#!/usr/bin/env python3
"""Regenerate the machine-written parts of DESIGN.md (sections 5.1 / 5.2 lists and the section 8 table)
from known_findings.json and seeded/*/meta.json. The regions are delimited by HTML comment markers."""
import json, os, re
HERE = os.path.dirname(os.path.dirname(os.path.abspath(__file__)))
p = os.path.join(HERE, "DESIGN.md")
s = open(p).read()
kf = json.load(open(os.path.join(HERE, "known_findings.json")))
fixed = "\n".join("* " + x[len("fixed: "):] for x in kf["fixed"])
known = "\n".join(f"* **{e['property']}** - {e['what']}  \n  e.g. `{e['example']}`  \n  signature: `{e['signature']}`" for e in kf["findings"])
rows = []
n = caught = 0
for sid in sorted(os.listdir(os.path.join(HERE, "seeded"))):
    mp = os.path.join(HERE, "seeded", sid, "meta.json")
    if not os.path.exists(mp):
        continue
    m = json.load(open(mp))
    det = m.get("detected_by") or {}
    n += 1
    if det.get("checks"):
        caught += 1
        c = ", ".join(det["checks"])
    else:
        c = "NOT CAUGHT: " + (det.get("note", "missed")[:160])
    rows.append(f"| {sid} | {m.get('round', 1)} | {(m.get('breaks') or '')[:140].replace('|', '/')} | {c} |")
table = f"{caught} of {n} seeded changes are caught by the quick tier.\n\n| change | round | what it breaks | caught by (quick tier) |\n|---|---|---|---|\n" + "\n".join(rows)

def region(name, body):
    global s
    a, b = f"<!-- BEGIN:{name} -->", f"<!-- END:{name} -->"
    assert a in s and b in s, name
    s = s[: s.index(a) + len(a)] + "\n" + body + "\n" + s[s.index(b):]

region("fixed", fixed)
region("known", known)
region("seeded", table)
open(p, "w").write(s)
print("DESIGN.md regions regenerated:", len(kf["fixed"]), "fixed,", len(kf["findings"]), "known,", n, "seeded (", caught, "caught )")
