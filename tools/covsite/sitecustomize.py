# Only on PYTHONPATH during tools/coverage_run.sh: start coverage in every Python process (checks, pool workers,
# zygotes, the protoc plugin) when COVERAGE_PROCESS_START is set.
try:
    import coverage

    coverage.process_startup()
except Exception:  # noqa: BLE001
    pass
