check("C16", "exploration", "exhaustive enumeration + Hypothesis vs spec codec and reference encoder",
      "Every integer of the exhaustive ranges and boundary windows, every decoder input of length <=2 and every continuation pattern is evaluated; the rest of the 64-bit domain and the 15 scalar kinds are sampled with Hypothesis against two independent oracles (spec codec, google.protobuf). Exhaustive on the enumerated sub-domains, sampled elsewhere.",
      "Trusts vf/wire.py and google.protobuf 7.36.1 as oracles (they are cross-checked against each other on every range start).",
      "DESIGN.md 3/C16")
