check("C16", "exploration", "exhaustive enumeration + Hypothesis vs spec codec and reference encoder",
      "Every integer of the exhaustive ranges and boundary windows, every decoder input of length <=2 and every continuation pattern is evaluated; the rest of the 64-bit domain and the 15 scalar kinds are sampled with Hypothesis against two independent oracles (spec codec, google.protobuf). Exhaustive on the enumerated sub-domains, sampled elsewhere.",
      "Trusts vf/wire.py and google.protobuf 7.36.1 as oracles (they are cross-checked against each other on every range start).",
      "DESIGN.md 3/C16")
check("C09", "exploration", "Hypothesis value trees + relational oracle (len / bytes / dump / delimited dump)",
      "Generated message values over the kitchen-sink corpus (constructed, attribute-assigned, or parsed with interleaved unknown fields) are each checked for len(m)==len(bytes(m)), dump()==bytes(m), delimited dump == spec varint prefix + bytes(m), SerializeToString()==bytes(m); sizes around the 1/2/3-byte length-prefix boundaries are forced.",
      "Samples the value space; the length prefix oracle is the spec varint encoder in vf/wire.py.",
      "DESIGN.md 3/C09")
check("C01", "exploration", "Hypothesis value trees + round-trip / idempotence oracle",
      "Generated message values over the kitchen-sink corpus are encoded, decoded and compared through public observers (values, oneof selection, None-ness, nested presence), with ==, and by re-encoding; failures are collected per root-cause signature so the search continues behind known findings.",
      "Samples the value space of a fixed but systematic schema corpus compiled by the current plugin; snapshots trust betterproto's public observers.",
      "DESIGN.md 3/C01")
check("C02", "exploration", "Hypothesis + differential oracle (google.protobuf) + spec-level legal re-encoder",
      "Generated values are encoded by betterproto and decoded by the reference, encoded by the reference and decoded by betterproto, and the reference bytes are rewritten by an independent spec-level re-encoder (permutation, packing toggle, chunk split, varint padding, overridden duplicates, unknown fields) before betterproto decodes them; the reference's own decode of each re-encoding is the soundness guard.",
      "Trusts google.protobuf 7.36.1 and vf/wire.py; repeated occurrences of singular message fields are out of the stated domain and not generated.",
      "DESIGN.md 3/C02")
check("C04", "exploration", "Hypothesis value trees + JSON/dict round-trip oracle",
      "Generated values x casing {CAMEL,SNAKE} x path {dict, JSON text, to_json/from_json} x form {classmethod, instance}: json.dumps(to_dict(m)) must succeed and the reloaded message must have the same public-observer snapshot, be == m and encode to the same bytes. Three genuine defects of the pinned tree (map keys/values and BytesValue in JSON) are listed in known_findings.json and matched by narrow signatures; anything else is a violation.",
      "Samples the value space; byte equality is not demanded when the value contains a nan (JSON cannot carry nan payload bits).",
      "DESIGN.md 3/C04")
check("C05", "exploration", "Hypothesis value trees + differential oracle (google.protobuf.json_format)",
      "Generated values: betterproto's JSON must be accepted by json_format.Parse and give the reference message of the same tree; the reference's JSON (camelCase and original proto names) must be accepted by from_json and give the same snapshot.",
      "Trusts json_format 7.36.1 as the canonical mapping; microsecond-resolution times only.",
      "DESIGN.md 3/C05")
check("C15", "exploration", "Hypothesis boundary-biased integers + integer spec and reference well-known-type oracles",
      "Generated microsecond values (full ranges, boundary and fraction-shape bias) x UTC offsets x field positions: the (seconds, nanos) the reference decodes from betterproto's bytes must equal the integer spec and the reference's own FromDatetime/FromTimedelta; decode must give back the identical value; JSON strings must match the reference's canonical strings up to trailing zeros and round-trip.",
      "Only aware datetimes; trusts google.protobuf Timestamp/Duration helpers and integer arithmetic in vf/values.py (cross-checked on every case).",
      "DESIGN.md 3/C15")
check("C20", "exploration", "Hypothesis enum definitions and field values + canonical-member model + reference cross-check",
      "Generated Enum definitions (negatives, gaps, aliases) are checked for canonical identity on every lookup path, copy/pickle behaviour, openness and immutability; generated int32 numbers are pushed through every field position of plugin-generated enums and must survive binary and JSON round trips (reference decoder cross-checks the wire form).",
      "Samples definitions and numbers; plugin-generated enums are the two corpus enums (grammar-generated enums are covered under C03).",
      "DESIGN.md 3/C20")
check("C08", "exploration", "Hypothesis (schema pair, value, unknown-record insertion) + round-trip / byte-containment oracle",
      "Generated (newer message, deleted-field subset at top level and inside nested types, value) pairs are passed through an older reader/writer built with the public field API and read back with the newer schema and the reference; generated unknown records of all four wire types are interleaved at generated positions and must be re-emitted byte-for-byte without disturbing known fields.",
      "Older schemas are synthesised from the plugin-generated classes with the public field API; the reference decoder guards every interleaved encoding.",
      "DESIGN.md 3/C08")
check("C06", "exploration", "exhaustive presence matrix + Hypothesis combinations vs presence model and reference HasField/WhichOneof",
      "The finite matrix (every corpus field x {unset, default, non-default} x {constructor, setattr, parse, from_dict}) is enumerated completely against a presence model written from the statement and against the reference's HasField / WhichOneof on the same bytes; fresh messages and lazily created nested assignment are enumerated; combinations of presence-tracked fields decoded from reference bytes are sampled with Hypothesis.",
      "Exhaustive over the matrix of the corpus schema, sampled for combinations; plain Timestamp/Duration fields are excluded from the presence-report clause.",
      "DESIGN.md 3/C06")
check("C07", "exploration", "model-based histories (Hypothesis operation lists + RuleBasedStateMachine) vs reference model of oneof state",
      "Generated operation histories (construct, set default/non-default, parse of multi-member byte strings, from_dict, copy/deepcopy/pickle, observers) are applied to the real message and to a last-write-wins model; after every step which_one_of, AttributeError on siblings, the encoded records (spec parser + reference WhichOneof) and to_dict in both casings must agree with the model.",
      "Samples histories of bounded length over one corpus message with three oneof groups covering every member kind.",
      "DESIGN.md 3/C07")
check("C14", "exploration", "Hypothesis histories (observer sequences, copies, mutation of the copy) + metamorphic oracle",
      "Generated histories: message obtained by construction / parse with unknown fields / from_dict, a sequence of read-only operations, copies in generated order, a mutation of the deep / unpickled copy. After every observer the encoding, the public-observer snapshot, is_set and equality must be unchanged; copies must be equal and byte-identical; the mutation must not reach the original.",
      "Samples histories; an observer that raises is counted and tolerated (the property claims purity, not totality).",
      "DESIGN.md 3/C14")
check("C10", "fault_enumeration", "Hypothesis message streams x exhaustive cut points + round-trip and reference framing oracle",
      "Generated streams of mixed message types (empty messages, older reader schemas) are written with SIZE_DELIMITED and read back; framing is compared with the spec varint prefix and read with the reference's parse_length_prefixed; then every truncation point of every stream is enumerated and each load must return the written message or raise.",
      "Streams are sampled, cut points of each sampled stream are exhaustive; older readers are synthesised with the public field API.",
      "DESIGN.md 3/C10")
check("C17", "fault_enumeration", "fault injection (all truncation points, tag/length corruption, wire-type substitution, invalid tags, groups) + Hypothesis random bytes vs validity predicate and must-reject list",
      "Reference encodings of generated values are damaged systematically: every truncation point of every sampled encoding, single-byte corruption of tag/length bytes, well-formed records with a substituted wire type before/after the genuine occurrence, field-number-0 and wire-type-6/7 tags, groups around known and unknown numbers; plus random byte strings. Each decode must raise or return a type-correct, re-encodable message; mid-record prefixes and invalid tags must raise; mismatches and groups must not alter known fields and mismatches must be kept as unknown fields. The reference's accept/reject decision is tabulated.",
      "Encodings are sampled, truncation points per encoding are exhaustive; which mismatches must be kept as unknown is decided by the reference decoder.",
      "DESIGN.md 3/C17")
check("C19", "exploration", "exhaustive identifier enumeration + keyword/real-world corpora + Hypothesis identifiers vs validity / idempotence / inverse-mapping oracle",
      "Every legal proto identifier up to length 5 (quick) / 6 (thorough) over {a,b,A,B,1,_}, all Python keywords / soft keywords / builtins and a real-world name corpus are mapped through the four pythonize_* functions (valid identifier, not a keyword, idempotent) and through a real message class: the camelCase key, the snake_case key and the proto name must all be mapped back to the field by from_dict / from_json.",
      "Exhaustive on the enumerated identifier space (legality sampled against protoc in quick, complete in thorough); classes are built with the public field API.",
      "DESIGN.md 3/C19")
check("C12", "exploration", "exhaustive DFS over ready-queue schedules on a controlled asyncio loop + Hypothesis schedules vs history invariants at quiescence",
      "A controlled event loop (one ready callback per step, chosen by the harness; virtual clock) runs sender / receiver / closer / canceller tasks against the real AsyncChannel. Every schedule of each small configuration is enumerated depth-first; larger configurations get Hypothesis-generated choice sequences. At quiescence the delivery history is checked: exactly-once for items sent before close, no duplicates or inventions, per-sender order, no stranded receiver, send-after-close refused, future receive terminates, cancellation / timeout surface as themselves.",
      "Exhaustive only for the listed small configurations (evidence names each subtree and whether it completed within the budget); schedule granularity = asyncio callbacks of CPython 3.12.",
      "DESIGN.md 3/C12")
check("C03", "translation_validation", "Hypothesis schema grammar + repository corpus + exhaustive bundled-descriptor diff, judged against protoc's FileDescriptorSet",
      "Each generated schema is compiled by protoc (descriptor set = ground truth) and by the plugin under test; the generated packages are imported and every class is matched (by unique markers) and compared field by field - number, proto type, cardinality from resolved hints and metadata, oneof group, wrapper / Timestamp / Duration mapping, target class identity, enum numbers. The repository's tests/inputs corpus and every bundled descriptor / well-known-type class are checked completely.",
      "Programs are sampled from a grammar (bundled classes and the repository corpus are exhaustive); the plugin runs with an identity stand-in for ruff.",
      "DESIGN.md 3/C03")
check("C13", "exploration", "exhaustive enumeration of package-pair topologies (+ all-at-once schemas), class-identity oracle",
      "Schemas are generated per ordered pair of package paths (depth 0-3 over {a,b}) with every reference site x referenced kind, and all-at-once schemas with package-level cycles and well-known types; after import every resolved type hint and every rpc request / reply type must be the identical class object found (by marker) in the target package, and values must survive a round trip through the referencing field.",
      "Quick runs the all-at-once schemas and a seed-selected quarter of the 225 pairs; thorough enumerates all pairs (exhaustive) plus alias-collision shapes with a third path component.",
      "DESIGN.md 3/C13")
check("C18", "translation_validation", "Hypothesis schema grammar x 6 option combinations, metamorphic comparison across configurations + descriptor validation",
      "Each generated schema (and a fixed all-cardinality service schema) is compiled under the 3 x 2 supported option combinations; every variant must import, pass the C03 structural validation against protoc's descriptors, have the same marker-indexed structure and service description as the default variant, and encode PRNG-drawn values to the same bytes and JSON.",
      "Programs are sampled; value trees come from a PRNG seeded by a Hypothesis-drawn integer (deterministic, replayable).",
      "DESIGN.md 3/C18")
check("C11", "exploration", "Hypothesis service schemas + PRNG-drawn calls over grpclib's in-process channel on a virtual-time loop vs echo-service model",
      "Generated and fixed service definitions are compiled; a subclass of the generated base overrides a drawn subset of methods with recording handlers (some raising GRPCError); calls of every cardinality with drawn request values, stream lengths 0-4 and None/set stub- and call-level options go through the generated stub over ChannelFor on the controlled loop. Exactly the same-named handler must run once with the sent requests, the caller must get the handler's responses, UNIMPLEMENTED / handler errors must surface, and the kwargs reaching channel.request() must follow per-call-over-stub precedence.",
      "Services and calls are sampled; the loop is single-schedule (FIFO) with a virtual clock, so a hang is a deterministic deadlock and never a wall-clock verdict.",
      "DESIGN.md 3/C11")

# ---- additions (round 3 of the seeded changes): appended to the texts above
_HIST = (" Histories over two schemas in a pristine interpreter (vf/props/_seq.py, vf/fresh.py): short sequences of operations on the classes "
         "of ks.proto and of ks_twin.proto (same message / field names and numbers, different cardinalities, enum types, value kinds, "
         "colliding JSON keys), each step judged by a history-independent oracle, evaluated in a forked child of a zygote that has "
         "imported but never used the classes - state leaking between classes or calls (coarse caches, memoised sizes, lazily filled tables) "
         "shows up as a failure that depends on the earlier steps.")
_MORE = {
    "C01": _HIST + " The sign of zero is compared wherever a zero is transmitted (repeated / map / optional / oneof).",
    "C02": _HIST + " Later occurrences of singular scalar fields (often carrying the default value) are appended and must win.",
    "C03": " A fixed matrix (every pooled field name x 8 labels) and packages google.type / google.rpc / googlex are validated by name.",
    "C04": _HIST,
    "C05": _HIST + " A fixed matrix of one message per pooled field name checks key naming in both directions.",
    "C06": " Emitted records are compared field number by field number (and recursively) with the fields the value holds, next to selected oneof members and optional defaults; values read before they are assigned are covered.",
    "C07": " The same interpreter runs on the pydantic_dataclasses variant of the corpus and on a message whose oneof groups have a single member.",
    "C08": " Unknown records carry non-minimal (padded) tag / length / value varints, and a second payload is decoded into the same instance.",
    "C09": _HIST + " Every message is observed a second time after an in-place mutation (append / map insert / nested assignment), and dumped into a sink that keeps the chunks it is handed.",
    "C10": " Writer instances that were sized / dumped while empty and then filled in place are part of the streams.",
    "C11": " The fixed service and the grammar services are also generated with pydantic_dataclasses and typing.310; well-known-type values are taken from the library the variant's message fields use.",
    "C12": " Senders that close the channel themselves through send_from(..., close=True) (no separate closer) are part of both targets.",
    "C13": " Pairs where the target package is referred to by nothing but an rpc input / output type, and fields named like the import alias of the package they refer to, are enumerated too.",
    "C14": _HIST + " Chains of copies of payloads beyond 1 KiB / 64 KiB, each copy mutated before the next is taken.",
    "C15": _HIST + " RFC 3339 input with a UTC offset other than Z must give the same instant.",
    "C16": _HIST + " dump_varint is also driven into a sink that keeps the chunks it is handed.",
    "C17": " Malformed content inside (skipped) groups - wire types 6/7, unterminated or wrongly closed groups, overrunning lengths, also nested - must be rejected wherever the reference rejects it.",
    "C18": " Request / reply classes of generated services must come from the library the variant's message fields use; enum values are passed as members and as bare numbers, including numbers the enum does not define.",
    "C19": _HIST,
    "C20": _HIST + " Mutation attempts include special-method names (__eq__, __int__, __hash__, __members__).",
}
_WKT = (" The classes betterproto bundles for google.protobuf (Struct family, FieldMask, Any, Timestamp, Duration, wrappers, FileDescriptorSet) are "
        "exercised as top-level messages against google.protobuf's own modules, in the std and the pydantic library (vf/props/_wkt.py).")
_MORE4 = {
    "C01": _WKT + " Aware datetimes carry drawn UTC offsets.",
    "C02": _WKT + " Decoding goes through parse / load / load(size) / load(SIZE_DELIMITED); packed fields are split into chunks including empty ones.",
    "C03": " A fixed service-name matrix (leading underscores / digits, keywords, upper-case runs) checks the generated Stub / Base pairs and their routes.",
    "C06": " A message received empty through every decoding entry point (parse, FromString, load, load(size=0), load(SIZE_DELIMITED), from_dict in both forms, from_json, from_pydict) and then embedded as a plain sub-message is enumerated.",
    "C07": " A corpus message whose groups and members are not lower_snake_case (camelCase / capitalised / double-underscore groups, members starting with an underscore, upper-case, keyword) is part of the variants.",
    "C08": " A copy is taken between two payloads; unknown groups nested up to 90 levels are unknown fields like any other.",
    "C09": _WKT,
    "C10": " Streams are also read through an object that offers read() only.",
    "C11": " Request streams are lists / tuples / generators / async iterators, also repeating one message object; the grammar draws deprecated rpcs.",
    "C12": " Items may have a False truth value; a stream-stream rpc over grpclib's test channel acts as a receiver whose caller is cancelled / abandons the call.",
    "C13": " Type names that do not start with a capital (also in a package-less file) and the pydantic_dataclasses output are covered by all-at-once schemas.",
    "C14": " serialized_on_wire of the message and of every sub-message, taken before the first encoding, is part of the observed state; dense values of the container-heavy messages are observed at least twice.",
    "C15": " Instants whose local wall clock reads the epoch / a day boundary under a non-zero offset are drawn deliberately.",
    "C16": " load_varint is read from buffered readers with tiny buffers (varints straddling the buffer boundary), one-byte-per-read streams and read()-only objects.",
    "C17": " Tags with bits above bit 31 must not touch known fields; a text payload that is not valid UTF-8 is rejected or re-encoded exactly as received.",
    "C18": _WKT + " Hypothesis value trees over the kitchen-sink corpus compiled under every option combination must give identical bytes / JSON / decoded values.",
    "C19": " to_pydict / from_pydict use the same key mapping.",
    "C20": " Members are pickled with every protocol (alone and inside containers); the member table handed out by __members__ must be read-only.",
}
for _pid, _t in _MORE.items():
    CHECKS[_pid]["text"] += _t
for _pid, _t in _MORE4.items():
    CHECKS[_pid]["text"] += _t
_MORE5 = {
    "C01": " Construction routes include the constructor given several members of one oneof; payloads of exactly 2**k-1 / 2**k / 2**k+1 bytes (k up to 23, thorough 24) and small multiples are round-tripped; user-defined types merely named like well-known types (protos/wktlike.proto) are covered in every position; repeated scalars now and then hold 60-135 elements.",
    "C02": " sint kinds are drawn at the values where their zig-zag form changes length; repeated scalars now and then hold 60-135 elements.",
    "C03": " The files of a grammar schema reach protoc in sorted or reversed order (command line and import statements); a fixed schema of user types named like well-known types is validated structurally.",
    "C04": " Construction routes: constructor, attribute assignment, in-place filling of lazily created members only (to_dict is then looked at before anything else touches the message), constructor given several members of one oneof.",
    "C05": " Construction routes as in C04.",
    "C06": " Every cell of the presence matrix is also emitted through dump(stream) and as a SIZE_DELIMITED frame (prefix = encoded size, frame reads back to the same bytes).",
    "C07": " Hand-written classes (public field API) whose oneof members are declared interleaved instead of group by group are part of the variants.",
    "C08": " With nested deletions the writer may emit every singular sub-message twice (an empty occurrence first): what the later occurrence carries beyond the older schema must survive.",
    "C09": " sint kinds at zig-zag length boundaries and long scalar lists as in C02.",
    "C10": " Streams are also read through io.BufferedReader with buffers of 8 / 16 / 64 / 4096 bytes (varints, tags and payloads straddle the buffer end).",
    "C11": " A request object is changed in place (append / map item / field of a nested message) between two sends - inside one request stream and between unary calls; what arrives must be what the object held each time.",
    "C12": " Channels created by synchronous set-up code before the loop exists (asyncio's current loop is a decoy then) are part of both targets.",
    "C13": " Every all-at-once schema is compiled under two orders of the files (command line and imports reversed): the plugin sees ancestors before descendants and vice versa.",
    "C14": " In-place histories against tree models (vf/props/_prog.py): the original is not looked at between the steps, copies are mutated through lazily created members, the original is changed in place between two copies / pickles, observers run on scratch instances, and at the end a fresh instance of every class involved must still be empty.",
    "C15": " from_dict must give the identical value for every legal spelling with 0-9 fractional digits.",
    "C16": " Packed lists of up to 600 elements and one map entry per key / value kind are encoded, compared with the reference and decoded back to the value.",
    "C17": " Every truncation is also presented behind a declared extent (SIZE_DELIMITED frame announcing the whole message, load(stream, size)): a message must not be returned.",
    "C18": " One package per oneof shape (one / two / three single-member groups, with and without a multi-member group, message / enum / wrapper members, nested) under every option combination.",
    "C19": " Sibling pairs: every identifier (length <= 4, thorough 5) shares a message with its derived siblings (its own JSON keys, itself without underscores, ...); a round trip restores both fields in every casing in which their keys differ.",
}
for _pid, _t in _MORE5.items():
    CHECKS[_pid]["text"] += _t
_MORE6 = {
    "C01": " A seventh of the cases is evaluated right after a series of FAILING operations (vf/props/_poison.py: state left behind by an exception); chains of up to 90 nested messages (singular / repeated / map / oneof) must round-trip within a budget of Message.__eq__ calls; the two passes of a repeated wall-clock hour of 4 DST zones share a message; float fields are also given Python ints.",
    "C02": " Poisoned cases as in C01; in-place histories against tree models (what is encoded is what the object holds now, however often it was encoded before).",
    "C03": " Fixed shapes (one package per typing construct / oneof shape / position of a builtin-named field: vf/props/_shapes.py), comments in other scripts, and the plugin process under LC_ALL=C without UTF-8 mode.",
    "C04": " Poisoned cases as in C01; a hand-written class whose attribute names are raw proto names (userID, retry__count, HTTPStatus).",
    "C05": " The pydantic_dataclasses output of the corpus and the class-level from_dict are part of the differential.",
    "C07": " parse operations carry members as records of a wire type that does not fit (unknown fields: they select nothing).",
    "C08": " Unknown records inside a sub-message survive pass-through relays (constructor re-wrap, re-assignment, copy / deepcopy) in std and pydantic output.",
    "C09": " Poisoned cases as in C01; in-place histories against tree models (len / dump / SerializeToString after every in-place change).",
    "C10": " Poisoned cases as in C01; fixed items at encoded-length boundaries (zig-zag, wrappers at 0, negative sub-second times).",
    "C11": " A fixed service whose type names matter to the stub (request named after its child package, Timeout / Deadline / Metadata / Request / Stream); receivers write into received messages; a fifth of the messages is all-default.",
    "C13": " Every generated stub method is called up to its first use of the channel: the classes the client hands over are the classes the server registers; well-known types are rpc types next to fields of the same type; request messages named after their package.",
    "C14": " The JSON form in both casings and bool(m) are part of the observed state (baseline taken before the harness looks inside the message).",
    "C15": " Poisoned cases as in C01; drawn process time zone (POSIX TZ incl. half-hour offsets, DST rules) and ambient decimal precision; UTC offsets with a sub-second part; fold pairs of 4 DST zones.",
    "C16": " decode_varint is also fed one mutable buffer refilled in place; float kinds are given Python ints.",
    "C17": " Poisoned cases as in C01; groups nested in groups (same / other number) and unterminated groups.",
    "C18": " Packages with builtin-named fields before / between / after typed constructs and type names ending in None; JSON is compared as parsed values.",
    "C19": " Hand-written classes whose attribute name is the raw proto name are probed like the generated names.",
    "C20": " Field positions are exercised on the default, pydantic_dataclasses and typing.310 output of the corpus, through constructor, setattr and both forms of from_dict.",
}
for _pid, _t in _MORE6.items():
    CHECKS[_pid]["text"] += _t
_THR = " Two threads use a class (or the varint helpers) for the first time at once in a pristine interpreter; a line-level scheduler (vf/tsched.py) owns the interleaving and sweeps the single preemption points; each thread must get the sequential answer."
_MORE7 = {
    "C01": _THR + " Message classes defined by inheritance (subclass adding fields, subclass of a subclass, behaviour-only subclass, each used first in turn) are judged by the reference; in-place histories with a SIZE_DELIMITED clause.",
    "C02": _THR + " The re-encoder inserts unknown (proto2) groups, also recursive ones.",
    "C03": " More fixed shapes: import public, colliding oneof names, enum-only packages; enum value names like _MAX_ / real / name.",
    "C04": _THR + " One sub-message object referenced from several places of a message.",
    "C05": _THR + " Enum values are handed over as members, bare ints and named members of another enum class.",
    "C07": _THR,
    "C08": _THR + " The older and the newer plugin output of one package run side by side in a pristine interpreter (vf/props/_twover.py).",
    "C09": " The inheritance target with len / delimited dump as first use.",
    "C10": " In-place histories with the SIZE_DELIMITED clause; frames beyond 64 KiB cut at every record boundary and at the 64 KiB marks.",
    "C12": " Runs of 31-70 items (what a receiver does every n-th time).",
    "C14": " Observers compare the message with different messages of its class; bytes fields may be bytearrays.",
    "C15": " Instances of subclasses of datetime / timedelta.",
    "C16": _THR + " Texts starting with U+FEFF.",
    "C17": " Payloads beyond 64 KiB cut far behind their start; an enum field must hold a member of the declared enum class (or a bare int).",
    "C18": " The shadowing probe runs name by name (known finding narrowed to the name / option pairs failing on the unchanged tree).",
    "C19": _THR,
    "C20": _THR + " Member names that are attributes of int, sunder names, a prefixed twin (ALERT_HIGH next to HIGH), named enum classes; Words' maps of two enums; foreign members.",
}
for _pid, _t in _MORE7.items():
    CHECKS[_pid]["text"] += _t
_MORE8 = {
    "C01": " Corpus maps named x and <prefix>_x.",
    "C02": " The re-encoder also rewrites map entries (overridden earlier key / value occurrences, free order).",
    "C03": " Shapes: alias-named fields, nested keyword-named types, foreign *Entry types, prefix-named maps, deprecated parts, mutually importing packages (validated by marker as well); per-name shadow probes; dunder enum value probe.",
    "C04": " A hand-written enum without a zero member with the number 0 in every position.",
    "C05": " Corpus enum Edge: value names that start / end with underscores.",
    "C06": " Every cell / fresh / combination case also on the pydantic_dataclasses output; single-member groups (Solo).",
    "C07": " The inheritance target with a subclass that re-declares inherited fields as members of one group.",
    "C08": " Half of the older readers have an own __post_init__ that calls the base's (what the plugin generates for deprecated fields).",
    "C09": " Packed lists of 2^k-1 / 2^k / 2^k+1 elements (k up to 16, thorough 18); histories merge unknown-only data into an object measured before.",
    "C10": " The bundled google.protobuf classes (Struct, ListValue, ...) as stream messages.",
    "C11": " A stream-stream attempt abandoned by wait_for, then a retry with the same request AsyncChannel.",
    "C12": " Bystander receivers blocked on another channel; configurations without receivers until the channel is closed.",
    "C13": " Fixed reference shapes (alias-named fields, nested keyword names, foreign *Entry types, import public, mutually importing packages) in both file orders, std and pydantic: annotation -> class by marker, the runtime's decoding class, a value through the reference.",
    "C17": " Ten-byte varints whose last byte overflows 64 bits as values; invalid content inside message-typed payloads, also of types without fields; Empty as a decoded type.",
    "C18": " Freshly constructed empty sub-messages x option sets (exhaustive over the corpus); the round-8 shapes; alias-named field probe.",
    "C19": " The inheritance target: subclass fields with odd names through camelCase keys after the base class used from_dict first.",
    "C20": " Members named value / name; corpus enum Edge (deprecated earlier alias) among the plugin definitions.",
}
for _pid, _t in _MORE8.items():
    CHECKS[_pid]["text"] += _t
