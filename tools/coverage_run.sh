#!/bin/sh
# usage: tools/coverage_run.sh [IDs...]  - runs the quick tier of the checks under coverage.py (line + branch coverage of
# /repo/src/betterproto in every process the checks start) and prints the report; data under .work/cov (git-ignored).
# Purpose: find code of the library that no check executes at all (a generator gap no seeded change has pointed at yet).
cd "$(dirname "$0")/.." || exit 2
rm -rf .work/cov; mkdir -p .work/cov
export COVERAGE_PROCESS_START="$PWD/tools/coveragerc"
export PYTHONPATH="$PWD/tools/covsite${PYTHONPATH:+:$PYTHONPATH}"
export VERIF_EVIDENCE_DIR="$PWD/.work/cov/evidence"
IDS="${*:-C01 C02 C03 C04 C05 C06 C07 C08 C09 C10 C11 C12 C13 C14 C15 C16 C17 C18 C19 C20}"
for p in $IDS; do bin/check "$p" --tier quick 2>&1 | grep -E "^\[C|VIOLATION|HARNESS" | cut -c1-160; done
unset COVERAGE_PROCESS_START
/venv/bin/python -m coverage combine --rcfile=tools/coveragerc -q .work/cov 2>&1 | tail -1
/venv/bin/python -m coverage report --rcfile=tools/coveragerc 2>&1 | tail -40
