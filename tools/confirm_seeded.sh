#!/bin/sh
# usage: tools/confirm_seeded.sh <dir with patchK.diff demoK.py> <K>  -> prints one JSON line
# Confirms, on a scratch worktree of the PINNED commit: patch applies, pinned suite summary unchanged,
# demo fails with the change and passes without it.
D="$1"; K="$2"; PINNED=e3745e3
WT="/tmp/vf_conf_$$"
git -C /repo worktree add --detach "$WT" $PINNED >/dev/null 2>&1 || exit 2
trap 'git -C /repo worktree remove --force "$WT" >/dev/null 2>&1; rm -rf "$WT"' EXIT
cd "$WT" || exit 2
PYTHONPATH="$WT/src" PATH=/tmp/tools/bin:/venv/bin:$PATH /venv/bin/python "$D/demo$K.py" >/tmp/vf_conf_$$.clean 2>&1; RC_CLEAN=$?
git apply "$D/patch$K.diff" || { echo "{\"dir\":\"$D\",\"k\":$K,\"applies\":false}"; exit 0; }
TESTS="$(PYTHONPATH="$WT/src" /venv/bin/python -m pytest -q -p no:cacheprovider --timeout=900 --continue-on-collection-errors 2>&1 | tail -1)"
PYTHONPATH="$WT/src" PATH=/tmp/tools/bin:/venv/bin:$PATH /venv/bin/python "$D/demo$K.py" >/tmp/vf_conf_$$.mut 2>&1; RC_MUT=$?
echo "{\"dir\":\"$D\",\"k\":$K,\"applies\":true,\"tests\":\"$TESTS\",\"demo_rc_clean\":$RC_CLEAN,\"demo_rc_mutant\":$RC_MUT}"
rm -f /tmp/vf_conf_$$.clean /tmp/vf_conf_$$.mut
