#!/usr/bin/env python3
"""Regenerate MANIFEST.json from the table below (keeps it valid at all times)."""
import json, os, sys

HERE = os.path.dirname(os.path.dirname(os.path.abspath(__file__)))
BASELINE = "cd /repo && /venv/bin/python -m pytest -ra -q -p no:cacheprovider --timeout=900 --continue-on-collection-errors"

# id -> (category, technique, level text, level note, design ref)
CHECKS = {}
NOT_APPLICABLE = {}


def check(pid, category, technique, text, note, ref):
    CHECKS[pid] = dict(category=category, technique=technique, text=text, note=note, ref=ref)


exec(open(os.path.join(HERE, "tools", "manifest_table.py")).read())

props = [json.loads(l)["id"] for l in open(os.path.join(HERE, "properties.jsonl"))]
checks = []
for pid in props:
    if pid not in CHECKS:
        continue
    c = CHECKS[pid]
    checks.append({
        "property_id": pid,
        "quick_cmd": f"bin/check {pid} --tier quick",
        "thorough_cmd": f"bin/check {pid} --tier thorough",
        "evidence_file": f"evidence/{pid}.json",
        "replay_cmd_template": f"bin/check {pid} --replay {{path}}",
        "engine": "vf",
        "level_claimed": {"category": c["category"], "text": c["text"], "design_ref": c["ref"]},
        "level_note": c["note"],
        "technique": c["technique"],
    })
na = [{"property_id": p, "reason": NOT_APPLICABLE.get(p, "check not built yet in this session; see DESIGN.md section 3")}
      for p in props if p not in CHECKS]
m = {
    "version": 1,
    "setup_cmd": "sh bin/setup.sh",
    "hooks": {
        "guard": "BETTERPROTO_VERIF",
        "enable": "no source hooks are needed: every property is observed through public API, generated code and an externally supplied event loop; checks put $VERIF_REPO/src (default /repo/src) first on sys.path",
        "baseline_off_cmd": BASELINE,
        "source_commits": [],
        "add_only": True,
    },
    "engines": [{
        "name": "vf",
        "path": "vf/",
        "serves_properties": [c["property_id"] for c in checks],
        "kind_free_text": "Hypothesis (given / find / RuleBasedStateMachine) + exhaustive enumeration of small finite sub-domains + atheris, judged by explicit oracles (google.protobuf reference, spec-level wire codec, protoc descriptors, explicit models); survey -> classify against known_findings.json -> pin/shrink -> replay file",
    }],
    "checks": checks,
    "notes": "bin/check <ID> [--tier quick|thorough] [--replay FILE]; VERIF_SEED, VERIF_TIER, VERIF_REPO honoured; exit 0 held / 1 VIOLATION / 2 harness error. Known findings: known_findings.json (never written at run time).",
    "not_applicable": na,
}
json.dump(m, open(os.path.join(HERE, "MANIFEST.json"), "w"), indent=1)
print("MANIFEST.json:", len(checks), "checks,", len(na), "not claimed")
