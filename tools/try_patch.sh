#!/bin/sh
# usage: tools/try_patch.sh <patch.diff> <ID> [more IDs...]   (env: TIER=quick|thorough)
# Applies the patch to a scratch worktree of /repo HEAD (outside /repo and /verif), runs the checks
# against it via VERIF_REPO, prints the verdicts, removes the worktree.
PATCH="$(readlink -f "$1")"; shift
HERE="$(cd "$(dirname "$0")/.." && pwd)"
WT="/tmp/vf_try_$$"
git -C /repo worktree add --detach "$WT" HEAD >/dev/null 2>&1 || { echo "worktree failed"; exit 2; }
trap 'git -C /repo worktree remove --force "$WT" >/dev/null 2>&1; rm -rf "$WT"' EXIT
# a seeded change written against the pinned commit may collide with a later fix: commit; then the
# hand-adapted equivalent patch_head.diff next to it is used
ALT="$(dirname "$PATCH")/patch_head.diff"
[ -f "$ALT" ] && [ "$(basename "$PATCH")" = "patch.diff" ] && PATCH="$ALT"
if ! git -C "$WT" apply "$PATCH" 2>/dev/null; then
  if ! git -C "$WT" apply --3way "$PATCH" >/dev/null 2>&1 || git -C "$WT" diff --name-only --diff-filter=U | grep -q .; then
    echo "PATCH-DOES-NOT-APPLY $PATCH"; exit 3
  fi
fi
for ID in "$@"; do
  OUT="$(cd "$HERE" && VERIF_REPO="$WT" VERIF_EVIDENCE_DIR="/tmp/vf_try_ev_$$" bin/check "$ID" --tier "${TIER:-quick}" 2>&1)"
  RC=$?
  echo "== $ID on $(basename "$PATCH"): rc=$RC"
  echo "$OUT" | grep -E "VIOLATION|HARNESS|Traceback|Error" | head -${LINES_SHOWN:-4} | cut -c1-400
  echo "$OUT" | tail -1 | cut -c1-300
done
rm -rf "/tmp/vf_try_ev_$$"
