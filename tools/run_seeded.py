#!/usr/bin/env python3
"""Run every seeded change against its property's check (quick tier) and record the verdicts.
usage: tools/run_seeded.py [-j N] [ids...]   -> seeded/RESULTS.json + detected_by in each meta.json
With SEEDED_RESULTS=<file> set (e.g. together with another VERIF_SEED) the verdicts go to that file only: a robustness
run that tells which detections depend on the seed."""
import concurrent.futures as cf, json, os, re, subprocess, sys
HERE = os.path.dirname(os.path.dirname(os.path.abspath(__file__)))
args = sys.argv[1:]
jobs = 4
if args[:1] == ["-j"]:
    jobs = int(args[1]); args = args[2:]
ids = args or sorted(d for d in os.listdir(os.path.join(HERE, "seeded")) if os.path.isdir(os.path.join(HERE, "seeded", d)))

def run(sid):
    pid = sid.split("_")[0]
    meta = json.load(open(os.path.join(HERE, "seeded", sid, "meta.json")))
    extra = meta.get("also_check", [])
    out = subprocess.run([os.path.join(HERE, "tools", "try_patch.sh"), os.path.join(HERE, "seeded", sid, "patch.diff"), pid] + extra,
                         capture_output=True, text=True, env=dict(os.environ, LINES_SHOWN="3", VERIF_NO_PIN="1"))
    verdicts = dict(re.findall(r"== (C\d+) on \S+: rc=(\d+)", out.stdout))
    first = re.findall(r"clause=(\S+) sig=(\S+)", out.stdout)[:3]
    applies = "PATCH-DOES-NOT-APPLY" not in out.stdout
    return sid, {"applies": applies, "verdicts": verdicts, "signatures": [s for _, s in first], "used_patch": "patch_head.diff" if os.path.exists(os.path.join(HERE, "seeded", sid, "patch_head.diff")) else "patch.diff"}

res = {}
with cf.ThreadPoolExecutor(jobs) as ex:
    for sid, r in ex.map(run, ids):
        res[sid] = r
        print(sid, r["applies"], r["verdicts"], r["signatures"][:1], flush=True)
        if os.environ.get("SEEDED_RESULTS"):
            continue
        mp = os.path.join(HERE, "seeded", sid, "meta.json")
        meta = json.load(open(mp))
        det = [p for p, rc in r["verdicts"].items() if rc == "1"]
        meta["detected_by"] = {"checks": det, "tier": "quick", "signatures": r["signatures"], "patch_used": r["used_patch"]} if det else (meta.get("detected_by") if isinstance(meta.get("detected_by"), dict) and meta["detected_by"].get("note") else None)
        json.dump(meta, open(mp, "w"), indent=1)
path = os.environ.get("SEEDED_RESULTS") or os.path.join(HERE, "seeded", "RESULTS.json")
old = json.load(open(path)) if os.path.exists(path) else {}
old.update(res)
json.dump(old, open(path, "w"), indent=1, sort_keys=True)
