"""bin/check entry point.  Exit 0 = held, 1 = VIOLATION printed, 2 = harness error."""
from __future__ import annotations

import argparse
import os
import sys
import traceback


def main(argv=None) -> int:
    from . import env

    env.ensure_hashseed()
    ap = argparse.ArgumentParser()
    ap.add_argument("pid")
    ap.add_argument("--tier", default=os.environ.get("VERIF_TIER", "quick"), choices=["quick", "thorough"])
    ap.add_argument("--replay")
    ap.add_argument("--shards", type=int)
    a = ap.parse_args(argv)
    try:
        env.setup_path()
        env.check_tree()
        from . import engine

        if a.replay:
            return engine.run_replay(a.pid, a.replay)
        return engine.run_check(a.pid, a.tier, env.seed(), a.shards)
    except SystemExit:
        raise
    except BaseException:  # harness error: never a VIOLATION
        traceback.print_exc()
        print(f"HARNESS-ERROR property={a.pid}", file=sys.stderr)
        return 2


if __name__ == "__main__":
    sys.exit(main())
