"""Verification framework for python-betterproto (property-based testing / fuzzing)."""
