"""Process environment: which tree is under test, work dir, seed, determinism."""
from __future__ import annotations

import atexit
import os
import shutil
import sys

VERIF = os.path.dirname(os.path.dirname(os.path.abspath(__file__)))
REPO = os.path.abspath(os.environ.get("VERIF_REPO", "/repo"))
SRC = os.path.join(REPO, "src")
PY = sys.executable
TOOLS_BIN = os.path.join(VERIF, "tools", "bin")
DEPS = os.path.join(VERIF, ".deps")


def seed() -> int:
    try:
        return int(os.environ.get("VERIF_SEED", "1"))
    except ValueError:
        return 1


def ensure_hashseed() -> None:
    """Re-exec once with PYTHONHASHSEED=0 so set/dict order never differs between runs."""
    if os.environ.get("PYTHONHASHSEED") != "0":
        os.environ["PYTHONHASHSEED"] = "0"
        os.execv(sys.executable, [sys.executable, "-m", "vf.cli"] + sys.argv[1:])


def setup_path() -> None:
    """Put the tree under test first on sys.path (beats the editable install of /repo)."""
    for p in (DEPS, VERIF, SRC):
        if p in sys.path:
            sys.path.remove(p)
    if os.path.isdir(DEPS):
        sys.path.insert(0, DEPS)
    sys.path.insert(0, VERIF)
    sys.path.insert(0, SRC)
    stale = [m for m in sys.modules if m == "betterproto" or m.startswith("betterproto.")]
    for m in stale:
        del sys.modules[m]


def child_env(extra: dict | None = None) -> dict:
    env = dict(os.environ)
    env["PATH"] = TOOLS_BIN + os.pathsep + os.path.dirname(PY) + os.pathsep + env.get("PATH", "")
    pp = [SRC, VERIF]
    if os.path.isdir(DEPS):
        pp.append(DEPS)
    if env.get("COVERAGE_PROCESS_START"):  # tools/coverage_run.sh: measure the subprocesses too
        pp.insert(0, os.path.join(VERIF, "tools", "covsite"))
    env["PYTHONPATH"] = os.pathsep.join(pp)
    env["PYTHONHASHSEED"] = "0"
    env["VERIF_REPO"] = REPO
    if extra:
        env.update(extra)
    return env


_WORK = None
_WORK_PID = None


def work_dir() -> str:
    """Private scratch dir under /verif/.work (git-ignored), removed at exit. A forked worker gets a sub-directory of
    its parent's (two processes never build into the same directory; the parent removes the whole tree)."""
    global _WORK, _WORK_PID
    pid = os.getpid()
    if _WORK is None:
        base = os.path.join(VERIF, ".work")
        os.makedirs(base, exist_ok=True)
        _WORK = os.path.join(base, f"w{pid}")
        _WORK_PID = pid
        shutil.rmtree(_WORK, ignore_errors=True)
        os.makedirs(_WORK)

        def _cleanup(path=_WORK, pid=pid):
            if os.getpid() == pid:
                shutil.rmtree(path, ignore_errors=True)

        atexit.register(_cleanup)
    elif _WORK_PID != pid:
        _WORK = os.path.join(_WORK, f"fork{pid}")
        _WORK_PID = pid
        os.makedirs(_WORK, exist_ok=True)
    return _WORK


def check_tree() -> None:
    import betterproto

    got = os.path.realpath(os.path.dirname(os.path.dirname(betterproto.__file__)))
    if got != os.path.realpath(SRC):
        raise RuntimeError(f"betterproto imported from {got}, expected {SRC}")
