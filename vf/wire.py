"""Independent spec-level protobuf wire codec (written from the encoding spec, not from
betterproto): varint / zig-zag / tag codec, record parser, legal re-encoder, fault injector."""
from __future__ import annotations

import struct
from dataclasses import dataclass
from typing import Any, List, Optional, Tuple

from .schema_info import FI, MI, Schema, wire_type_of

VARINT, I64, LEN, SGROUP, EGROUP, I32 = 0, 1, 2, 3, 4, 5
MASK64 = (1 << 64) - 1


class WireError(Exception):
    pass


class Truncated(WireError):
    pass


def enc_varint(n: int, pad_to: int = 0) -> bytes:
    """Base-128 varint of n (two's complement 64-bit for negatives). pad_to>len: non-minimal encoding."""
    if n < -(1 << 63) or n > MASK64:
        raise ValueError("out of 64-bit range")
    n &= MASK64
    out = bytearray()
    while True:
        b = n & 0x7F
        n >>= 7
        if n:
            out.append(b | 0x80)
        else:
            out.append(b)
            break
    if pad_to > len(out):
        if pad_to > 10:
            raise ValueError("varint cannot exceed 10 bytes")
        out[-1] |= 0x80
        while len(out) < pad_to - 1:
            out.append(0x80)
        out.append(0x00)
    return bytes(out)


def dec_varint(buf: bytes, pos: int = 0) -> Tuple[int, int]:
    """(value mod 2**64, new position). Truncated if input ends; WireError if > 10 bytes."""
    result = 0
    shift = 0
    i = pos
    while True:
        if i - pos >= 10:
            raise WireError("varint longer than 10 bytes")
        if i >= len(buf):
            raise Truncated("varint truncated")
        b = buf[i]
        i += 1
        result |= (b & 0x7F) << shift
        shift += 7
        if not b & 0x80:
            return result & MASK64, i


def varint_len(n: int) -> int:
    return len(enc_varint(n))


def zigzag(n: int, bits: int = 64) -> int:
    return ((n << 1) ^ (n >> (bits - 1))) & ((1 << bits) - 1)


def unzigzag(n: int) -> int:
    return (n >> 1) ^ -(n & 1)


def tag(number: int, wt: int, pad_to: int = 0) -> bytes:
    return enc_varint((number << 3) | wt, pad_to)


@dataclass
class Record:
    number: int
    wt: int
    payload: Any  # int for VARINT, bytes for I64/I32/LEN, None for group markers
    raw: bytes  # exact bytes of the record as found / built
    start: int = 0

    @property
    def end(self) -> int:
        return self.start + len(self.raw)


def parse_records(buf: bytes, strict: bool = True) -> List[Record]:
    """Top-level records of buf. Raises Truncated / WireError on malformed framing."""
    out = []
    i = 0
    n = len(buf)
    while i < n:
        start = i
        key, i = dec_varint(buf, i)
        number, wt = key >> 3, key & 7
        if number == 0:
            raise WireError("field number 0")
        if wt == VARINT:
            v, i = dec_varint(buf, i)
            payload = v
        elif wt == I64:
            if i + 8 > n:
                raise Truncated("fixed64 truncated")
            payload, i = buf[i : i + 8], i + 8
        elif wt == I32:
            if i + 4 > n:
                raise Truncated("fixed32 truncated")
            payload, i = buf[i : i + 4], i + 4
        elif wt == LEN:
            ln, i = dec_varint(buf, i)
            if i + ln > n:
                raise Truncated("LEN payload truncated")
            payload, i = buf[i : i + ln], i + ln
        elif wt in (SGROUP, EGROUP):
            payload = None
        else:
            raise WireError(f"invalid wire type {wt}")
        out.append(Record(number, wt, payload, buf[start:i], start))
    return out


def record_boundaries(buf: bytes) -> List[int]:
    """Offsets at which a top-level record starts or the buffer ends."""
    recs = parse_records(buf)
    return [r.start for r in recs] + [len(buf)]


def make_record(number: int, wt: int, payload, tag_pad: int = 0, len_pad: int = 0, val_pad: int = 0) -> Record:
    t = tag(number, wt, tag_pad)
    if wt == VARINT:
        raw = t + enc_varint(payload, val_pad)
    elif wt in (I64, I32):
        raw = t + payload
    elif wt == LEN:
        raw = t + enc_varint(len(payload), len_pad) + payload
    else:
        raw = t
    return Record(number, wt, payload, raw)


# --------------------------------------------------------------------------- scalar element codec


def enc_scalar(t: str, v) -> Tuple[int, Any]:
    """(wire type, payload) of one scalar element per the spec."""
    if t in ("int32", "int64", "uint32", "uint64", "enum"):
        return VARINT, int(v) & MASK64
    if t == "sint32":
        return VARINT, zigzag(int(v), 32)
    if t == "sint64":
        return VARINT, zigzag(int(v), 64)
    if t == "bool":
        return VARINT, 1 if v else 0
    if t == "fixed32":
        return I32, struct.pack("<I", v)
    if t == "sfixed32":
        return I32, struct.pack("<i", v)
    if t == "float":
        return I32, struct.pack("<f", v)
    if t == "fixed64":
        return I64, struct.pack("<Q", v)
    if t == "sfixed64":
        return I64, struct.pack("<q", v)
    if t == "double":
        return I64, struct.pack("<d", v)
    if t == "string":
        return LEN, v.encode("utf-8")
    if t == "bytes":
        return LEN, bytes(v)
    raise NotImplementedError(t)


def payload_bytes(wt: int, payload) -> bytes:
    """Bytes of an element as it appears inside a packed field."""
    if wt == VARINT:
        return enc_varint(payload)
    return payload


def dec_scalar(t: str, wt: int, payload):
    if t in ("uint32",):
        return payload & 0xFFFFFFFF
    if t == "uint64":
        return payload
    if t in ("int32", "enum"):
        v = payload & 0xFFFFFFFF
        return v - (1 << 32) if v >= 1 << 31 else v
    if t == "int64":
        return payload - (1 << 64) if payload >= 1 << 63 else payload
    if t == "sint32":
        v = unzigzag(payload & 0xFFFFFFFF)
        return v
    if t == "sint64":
        return unzigzag(payload)
    if t == "bool":
        return payload != 0
    fmt = {"fixed32": "<I", "sfixed32": "<i", "float": "<f", "fixed64": "<Q", "sfixed64": "<q", "double": "<d"}.get(t)
    if fmt:
        return struct.unpack(fmt, payload)[0]
    if t == "string":
        return payload.decode("utf-8")
    if t == "bytes":
        return payload
    raise NotImplementedError(t)


# --------------------------------------------------------------------------- spec encoder of value trees


def _enc_single(schema: Schema, fi: FI, v) -> Tuple[int, Any]:
    from .values import split_dur, split_ts

    if fi.wkt == "timestamp":
        s, n = split_ts(v)
        body = b""
        if s:
            body += make_record(1, VARINT, s & MASK64).raw
        if n:
            body += make_record(2, VARINT, n & MASK64).raw
        return LEN, body
    if fi.wkt == "duration":
        s, n = split_dur(v)
        body = b""
        if s:
            body += make_record(1, VARINT, s & MASK64).raw
        if n:
            body += make_record(2, VARINT, n & MASK64).raw
        return LEN, body
    if fi.wkt == "wrapper":
        wt, p = enc_scalar(fi.wraps, v)
        from .values import _is_default, _norm_scalar

        nv = _norm_scalar(fi.wraps, v)
        if _is_default(fi.wraps, nv) and not (isinstance(v, float) and str(v) == "-0.0"):
            return LEN, b""
        return LEN, make_record(1, wt, p).raw
    if fi.type == "message":
        return LEN, b"".join(r.raw for r in encode_records(schema, schema.msg(fi.msg), v))
    return enc_scalar(fi.type, v)


def encode_records(schema: Schema, mi: MI, tree, packed: bool = True) -> List[Record]:
    """Canonical spec encoding of a value tree as a list of records (field-number order)."""
    from .values import _is_default, _norm_scalar

    recs: List[Record] = []
    for fi in sorted(mi.fields, key=lambda f: f.number):
        if fi.name not in tree:
            continue
        v = tree[fi.name]
        if fi.card == "repeated":
            if not v:
                continue
            wt0 = wire_type_of(fi.type)
            if packed and wt0 != LEN:
                body = b"".join(payload_bytes(*enc_scalar(fi.type, x)) for x in v)
                recs.append(make_record(fi.number, LEN, body))
            else:
                for x in v:
                    wt, p = _enc_single(schema, fi, x)
                    recs.append(make_record(fi.number, wt, p))
        elif fi.card == "map":
            pairs = v.items() if isinstance(v, dict) else v
            for k, x in pairs:
                kw, kp = enc_scalar(fi.key.type, k)
                vw, vp = _enc_single(schema, fi.val, x)
                body = make_record(1, kw, kp).raw + make_record(2, vw, vp).raw
                recs.append(make_record(fi.number, LEN, body))
        else:
            if fi.card == "single" and not fi.oneof and fi.type != "message":
                nv = _norm_scalar(fi.type, v)
                if _is_default(fi.type, nv):
                    continue
            wt, p = _enc_single(schema, fi, v)
            recs.append(make_record(fi.number, wt, p))
    return recs


def encode_tree(schema: Schema, mi: MI, tree) -> bytes:
    return b"".join(r.raw for r in encode_records(schema, mi, tree))


# --------------------------------------------------------------------------- legal re-encoder

ALL_OPS = ("perm", "toggle", "split", "pad_tag", "pad_len", "pad_val", "dup", "unknown")


def _elements_of_packed(t: str, body: bytes) -> List[Tuple[int, Any]]:
    wt = wire_type_of(t)
    out = []
    i = 0
    while i < len(body):
        if wt == VARINT:
            v, i = dec_varint(body, i)
            out.append((VARINT, v))
        elif wt == I32:
            out.append((I32, body[i : i + 4]))
            i += 4
        else:
            out.append((I64, body[i : i + 8]))
            i += 8
    return out


def _other_value(rng, fi: FI, rec: Record):
    """A different well-formed payload for the same field/wire type (an overridden earlier occurrence)."""
    if rec.wt == VARINT:
        if fi.type == "bool":
            return 1 - (1 if rec.payload else 0)
        if fi.type in ("int32", "enum", "sint32", "uint32"):
            return rng.choice([0, 1, 5, 300, 2**31 - 1]) & MASK64
        return rng.choice([0, 1, 77, 2**40 + 3])
    if rec.wt in (I32, I64):
        n = 4 if rec.wt == I32 else 8
        return bytes(rng.randrange(1, 127) for _ in range(n - 1)) + b"\x00"
    if fi.type == "string":
        return rng.choice([b"", b"earlier", "é".encode()])
    return rng.choice([b"", b"\x01\x02"])


def reencode(schema: Schema, mi: MI, data: bytes, ops, rng, depth: int = 0, stats: Optional[dict] = None) -> bytes:
    """A different but legal encoding of the same message (spec-level, independent of betterproto).

    ops subset of ALL_OPS; rng is a random.Random seeded from the (Hypothesis-drawn) case.
    `stats` counts which transformations actually changed something."""
    if stats is None:
        stats = {}

    def hit(k):
        stats[k] = stats.get(k, 0) + 1

    recs = parse_records(data)
    out: List[Record] = []
    i = 0
    # 1. element-level rewrites (toggle packing / split chunks / recurse into sub-messages)
    while i < len(recs):
        r = recs[i]
        fi = mi.by_number(r.number)
        if fi is None:
            out.append(r)
            i += 1
            continue
        if fi.card == "repeated" and wire_type_of(fi.type) != LEN:
            if r.wt == LEN:  # packed
                els = _elements_of_packed(fi.type, r.payload)
                if "toggle" in ops and els and rng.random() < 0.7:
                    out.extend(make_record(fi.number, wt, p) for wt, p in els)
                    hit("toggle")
                elif "split" in ops and len(els) >= 1 and rng.random() < 0.8:
                    # (an EMPTY packed chunk - tag + length 0 - is legal and adds nothing)
                    k = rng.randrange(0, len(els) + 1)
                    for chunk in (els[:k], els[k:]):
                        out.append(make_record(fi.number, LEN, b"".join(payload_bytes(wt, p) for wt, p in chunk)))
                    hit("split" if 0 < k < len(els) else "split_with_empty_chunk")
                elif "pad_val" in ops and els and els[0][0] == VARINT and rng.random() < 0.7:
                    body = b""
                    for _, p in els:
                        vl = varint_len(p)
                        body += enc_varint(p, rng.randrange(vl + 1, 11) if vl < 10 and rng.random() < 0.6 else 0)
                    if body != r.payload:
                        hit("pad_packed_elem")
                    out.append(make_record(fi.number, LEN, body))
                else:
                    out.append(r)
            else:
                out.append(r)
            i += 1
            continue
        if fi.card == "map" and r.wt == LEN and ("dup" in ops or "perm" in ops) and rng.random() < 0.5:
            # a map entry is a message {key = 1; value = 2}: its two fields are singular, so earlier occurrences are
            # overridden by later ones (scalars; message values would merge) and their order is free
            erecs = parse_records(r.payload)
            if "dup" in ops:
                for which, f2 in ((1, fi.key), (2, fi.val)):
                    idx = [j for j, er in enumerate(erecs) if er.number == which]
                    if idx and f2.type != "message" and rng.random() < 0.6:
                        real = erecs[idx[-1]]
                        stale = make_record(which, real.wt, _other_value(rng, f2, real))
                        erecs.insert(rng.randrange(0, idx[-1] + 1), stale)
                        hit("map_entry_dup_key" if which == 1 else "map_entry_dup_value")
            if "perm" in ops and len(erecs) > 1 and rng.random() < 0.5:
                # any order that keeps the relative order of the occurrences of one number
                ones, twos = [er for er in erecs if er.number == 1], [er for er in erecs if er.number != 1]
                merged = []
                while ones or twos:
                    src_ = ones if (ones and (not twos or rng.randrange(2))) else twos
                    merged.append(src_.pop(0))
                if [er.raw for er in merged] != [er.raw for er in erecs]:
                    hit("map_entry_perm")
                erecs = merged
            out.append(make_record(fi.number, LEN, b"".join(er.raw for er in erecs)))
            i += 1
            continue
        sub = None
        if fi.type == "message" and fi.wkt is None and r.wt == LEN and fi.card != "map":
            sub = schema.msg(fi.msg)
        if sub is not None and depth < 2 and r.payload and rng.random() < 0.6:
            body = reencode(schema, sub, r.payload, ops, rng, depth + 1, stats)
            out.append(make_record(fi.number, LEN, body))
        else:
            out.append(r)
        i += 1
    recs = out
    # 2. overridden earlier occurrences of singular scalars / other oneof members
    if "dup" in ops:
        out = []
        seen_groups = set()
        for r in recs:
            fi = mi.by_number(r.number)
            if fi is not None and fi.card in ("single", "optional") and fi.type != "message" and rng.random() < 0.6:
                if fi.oneof and rng.random() < 0.5:
                    others = [g for g in mi.oneofs[fi.oneof] if g.number != fi.number and g.type != "message"]
                    if others and fi.oneof not in seen_groups:
                        g = rng.choice(others)
                        wt = wire_type_of(g.type)
                        fake = Record(g.number, wt, 0 if wt == VARINT else (b"\x00" * (4 if wt == I32 else 8) if wt != LEN else b""), b"")
                        out.append(make_record(g.number, wt, _other_value(rng, g, fake)))
                        hit("dup_oneof")
                else:
                    out.append(make_record(fi.number, r.wt, _other_value(rng, fi, r)))
                    hit("dup_scalar")
            if fi is not None and fi.oneof:
                seen_groups.add(fi.oneof)
            out.append(r)
        recs = out
    # 3. unknown fields
    if "unknown" in ops:
        used = {f.number for f in mi.fields}
        for _ in range(rng.randrange(1, 4)):
            n = rng.choice([x for x in (9999, 19, 1000, 2**28 + 1, 2**29 - 2, 77) if x not in used])
            wt = rng.choice([VARINT, I64, LEN, I32])
            p = {VARINT: rng.choice([0, 1, 2**63]), I64: b"\x01" * 8, I32: b"\x02" * 4, LEN: rng.choice([b"", b"xyz", b"\x08\x01"])}[wt]
            if rng.randrange(4) == 0:
                # an unknown (proto2) GROUP: start marker, content, end marker - possibly holding a group of the SAME number
                # (a recursive group) or of another one; one unknown field as a whole
                inner = make_record(rng.choice([1, 2, 3]), VARINT, rng.choice([0, 300])).raw
                depth = rng.choice([1, 2, 2, 3])
                raw = inner
                for lvl in range(depth):
                    g = n if (lvl % 2 == 0 or rng.randrange(2)) else n + 1
                    raw = tag(g, 3) + raw + (make_record(2, LEN, b"t").raw if lvl else b"") + tag(g, 4)
                recs.insert(rng.randrange(0, len(recs) + 1), Record(n, 3, None, raw))
                hit("unknown_group")
                continue
            recs.insert(rng.randrange(0, len(recs) + 1), make_record(n, wt, p))
            hit("unknown")
    # 4. permutation preserving the relative order within one field number and within one oneof group
    if "perm" in ops and len(recs) > 1:
        def cls_of(r):
            fi = mi.by_number(r.number)
            if fi is not None and fi.oneof:
                return ("g", fi.oneof)
            return ("n", r.number)

        keys = [cls_of(r) for r in recs]
        order = list(range(len(recs)))
        rng.shuffle(order)
        # place classes by shuffled slots, keeping each class's internal order
        queues = {}
        for r, k in zip(recs, keys):
            queues.setdefault(k, []).append(r)
        new = []
        for idx in order:
            k = keys[idx]
            new.append(queues[k].pop(0))
        if [r.raw for r in new] != [r.raw for r in recs]:
            hit("perm")
        recs = new
    # 5. non-minimal varints (tags, lengths, values)
    final = []
    for r in recs:
        tp = lp = vp = 0
        tlen = varint_len((r.number << 3) | r.wt)
        if "pad_tag" in ops and rng.random() < 0.4:
            tp = rng.randrange(tlen + 1, min(5, tlen + 3) + 1) if tlen < 5 else 0
        if r.wt == LEN and "pad_len" in ops and rng.random() < 0.4:
            ll = varint_len(len(r.payload))
            lp = rng.randrange(ll + 1, min(5, ll + 3) + 1) if ll < 5 else 0
        if r.wt == VARINT and "pad_val" in ops and rng.random() < 0.5:
            vl = varint_len(r.payload)
            vp = rng.randrange(vl + 1, 11) if vl < 10 else 0
        if tp or lp or vp:
            nr = make_record(r.number, r.wt, r.payload, tag_pad=tp, len_pad=lp, val_pad=vp)
            if nr.raw != r.raw:
                hit("pad_tag" if tp else ("pad_len" if lp else "pad_val"))
            final.append(nr)
        else:
            final.append(r)
    return b"".join(r.raw for r in final)
