"""Independent spec-level protobuf wire codec (written from the encoding spec, not from
betterproto): varint / zig-zag / tag codec, record parser, legal re-encoder, fault injector."""
from __future__ import annotations

import struct
from dataclasses import dataclass
from typing import Any, List, Optional, Tuple

from .schema_info import FI, MI, Schema, wire_type_of

VARINT, I64, LEN, SGROUP, EGROUP, I32 = 0, 1, 2, 3, 4, 5
MASK64 = (1 << 64) - 1


class WireError(Exception):
    pass


class Truncated(WireError):
    pass


def enc_varint(n: int, pad_to: int = 0) -> bytes:
    """Base-128 varint of n (two's complement 64-bit for negatives). pad_to>len: non-minimal encoding."""
    if n < -(1 << 63) or n > MASK64:
        raise ValueError("out of 64-bit range")
    n &= MASK64
    out = bytearray()
    while True:
        b = n & 0x7F
        n >>= 7
        if n:
            out.append(b | 0x80)
        else:
            out.append(b)
            break
    if pad_to > len(out):
        if pad_to > 10:
            raise ValueError("varint cannot exceed 10 bytes")
        out[-1] |= 0x80
        while len(out) < pad_to - 1:
            out.append(0x80)
        out.append(0x00)
    return bytes(out)


def dec_varint(buf: bytes, pos: int = 0) -> Tuple[int, int]:
    """(value mod 2**64, new position). Truncated if input ends; WireError if > 10 bytes."""
    result = 0
    shift = 0
    i = pos
    while True:
        if i - pos >= 10:
            raise WireError("varint longer than 10 bytes")
        if i >= len(buf):
            raise Truncated("varint truncated")
        b = buf[i]
        i += 1
        result |= (b & 0x7F) << shift
        shift += 7
        if not b & 0x80:
            return result & MASK64, i


def varint_len(n: int) -> int:
    return len(enc_varint(n))


def zigzag(n: int, bits: int = 64) -> int:
    return ((n << 1) ^ (n >> (bits - 1))) & ((1 << bits) - 1)


def unzigzag(n: int) -> int:
    return (n >> 1) ^ -(n & 1)


def tag(number: int, wt: int, pad_to: int = 0) -> bytes:
    return enc_varint((number << 3) | wt, pad_to)


@dataclass
class Record:
    number: int
    wt: int
    payload: Any  # int for VARINT, bytes for I64/I32/LEN, None for group markers
    raw: bytes  # exact bytes of the record as found / built
    start: int = 0

    @property
    def end(self) -> int:
        return self.start + len(self.raw)


def parse_records(buf: bytes, strict: bool = True) -> List[Record]:
    """Top-level records of buf. Raises Truncated / WireError on malformed framing."""
    out = []
    i = 0
    n = len(buf)
    while i < n:
        start = i
        key, i = dec_varint(buf, i)
        number, wt = key >> 3, key & 7
        if number == 0:
            raise WireError("field number 0")
        if wt == VARINT:
            v, i = dec_varint(buf, i)
            payload = v
        elif wt == I64:
            if i + 8 > n:
                raise Truncated("fixed64 truncated")
            payload, i = buf[i : i + 8], i + 8
        elif wt == I32:
            if i + 4 > n:
                raise Truncated("fixed32 truncated")
            payload, i = buf[i : i + 4], i + 4
        elif wt == LEN:
            ln, i = dec_varint(buf, i)
            if i + ln > n:
                raise Truncated("LEN payload truncated")
            payload, i = buf[i : i + ln], i + ln
        elif wt in (SGROUP, EGROUP):
            payload = None
        else:
            raise WireError(f"invalid wire type {wt}")
        out.append(Record(number, wt, payload, buf[start:i], start))
    return out


def record_boundaries(buf: bytes) -> List[int]:
    """Offsets at which a top-level record starts or the buffer ends."""
    recs = parse_records(buf)
    return [r.start for r in recs] + [len(buf)]


def make_record(number: int, wt: int, payload, tag_pad: int = 0, len_pad: int = 0, val_pad: int = 0) -> Record:
    t = tag(number, wt, tag_pad)
    if wt == VARINT:
        raw = t + enc_varint(payload, val_pad)
    elif wt in (I64, I32):
        raw = t + payload
    elif wt == LEN:
        raw = t + enc_varint(len(payload), len_pad) + payload
    else:
        raw = t
    return Record(number, wt, payload, raw)


# --------------------------------------------------------------------------- scalar element codec


def enc_scalar(t: str, v) -> Tuple[int, Any]:
    """(wire type, payload) of one scalar element per the spec."""
    if t in ("int32", "int64", "uint32", "uint64", "enum"):
        return VARINT, int(v) & MASK64
    if t == "sint32":
        return VARINT, zigzag(int(v), 32)
    if t == "sint64":
        return VARINT, zigzag(int(v), 64)
    if t == "bool":
        return VARINT, 1 if v else 0
    if t == "fixed32":
        return I32, struct.pack("<I", v)
    if t == "sfixed32":
        return I32, struct.pack("<i", v)
    if t == "float":
        return I32, struct.pack("<f", v)
    if t == "fixed64":
        return I64, struct.pack("<Q", v)
    if t == "sfixed64":
        return I64, struct.pack("<q", v)
    if t == "double":
        return I64, struct.pack("<d", v)
    if t == "string":
        return LEN, v.encode("utf-8")
    if t == "bytes":
        return LEN, bytes(v)
    raise NotImplementedError(t)


def payload_bytes(wt: int, payload) -> bytes:
    """Bytes of an element as it appears inside a packed field."""
    if wt == VARINT:
        return enc_varint(payload)
    return payload


def dec_scalar(t: str, wt: int, payload):
    if t in ("uint32",):
        return payload & 0xFFFFFFFF
    if t == "uint64":
        return payload
    if t in ("int32", "enum"):
        v = payload & 0xFFFFFFFF
        return v - (1 << 32) if v >= 1 << 31 else v
    if t == "int64":
        return payload - (1 << 64) if payload >= 1 << 63 else payload
    if t == "sint32":
        v = unzigzag(payload & 0xFFFFFFFF)
        return v
    if t == "sint64":
        return unzigzag(payload)
    if t == "bool":
        return payload != 0
    fmt = {"fixed32": "<I", "sfixed32": "<i", "float": "<f", "fixed64": "<Q", "sfixed64": "<q", "double": "<d"}.get(t)
    if fmt:
        return struct.unpack(fmt, payload)[0]
    if t == "string":
        return payload.decode("utf-8")
    if t == "bytes":
        return payload
    raise NotImplementedError(t)


# --------------------------------------------------------------------------- spec encoder of value trees


def _enc_single(schema: Schema, fi: FI, v) -> Tuple[int, Any]:
    from .values import split_dur, split_ts

    if fi.wkt == "timestamp":
        s, n = split_ts(v)
        body = b""
        if s:
            body += make_record(1, VARINT, s & MASK64).raw
        if n:
            body += make_record(2, VARINT, n & MASK64).raw
        return LEN, body
    if fi.wkt == "duration":
        s, n = split_dur(v)
        body = b""
        if s:
            body += make_record(1, VARINT, s & MASK64).raw
        if n:
            body += make_record(2, VARINT, n & MASK64).raw
        return LEN, body
    if fi.wkt == "wrapper":
        wt, p = enc_scalar(fi.wraps, v)
        from .values import _is_default, _norm_scalar

        nv = _norm_scalar(fi.wraps, v)
        if _is_default(fi.wraps, nv) and not (isinstance(v, float) and str(v) == "-0.0"):
            return LEN, b""
        return LEN, make_record(1, wt, p).raw
    if fi.type == "message":
        return LEN, b"".join(r.raw for r in encode_records(schema, schema.msg(fi.msg), v))
    return enc_scalar(fi.type, v)


def encode_records(schema: Schema, mi: MI, tree, packed: bool = True) -> List[Record]:
    """Canonical spec encoding of a value tree as a list of records (field-number order)."""
    from .values import _is_default, _norm_scalar

    recs: List[Record] = []
    for fi in sorted(mi.fields, key=lambda f: f.number):
        if fi.name not in tree:
            continue
        v = tree[fi.name]
        if fi.card == "repeated":
            if not v:
                continue
            wt0 = wire_type_of(fi.type)
            if packed and wt0 != LEN:
                body = b"".join(payload_bytes(*enc_scalar(fi.type, x)) for x in v)
                recs.append(make_record(fi.number, LEN, body))
            else:
                for x in v:
                    wt, p = _enc_single(schema, fi, x)
                    recs.append(make_record(fi.number, wt, p))
        elif fi.card == "map":
            pairs = v.items() if isinstance(v, dict) else v
            for k, x in pairs:
                kw, kp = enc_scalar(fi.key.type, k)
                vw, vp = _enc_single(schema, fi.val, x)
                body = make_record(1, kw, kp).raw + make_record(2, vw, vp).raw
                recs.append(make_record(fi.number, LEN, body))
        else:
            if fi.card == "single" and not fi.oneof and fi.type != "message":
                nv = _norm_scalar(fi.type, v)
                if _is_default(fi.type, nv):
                    continue
            wt, p = _enc_single(schema, fi, v)
            recs.append(make_record(fi.number, wt, p))
    return recs


def encode_tree(schema: Schema, mi: MI, tree) -> bytes:
    return b"".join(r.raw for r in encode_records(schema, mi, tree))
