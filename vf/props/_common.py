"""Helpers shared by the value-level properties (corpus cases, localisation, unknown records)."""
from __future__ import annotations

from typing import Any, Callable, Dict, List, Optional

from hypothesis import strategies as st

from .. import wire
from ..schema_info import FI, MI, Schema
from ..values import TreeStrategies, field_classes, single_field_trees, tree_depth, value_class
from ._corpus import corpus

TOP_MESSAGES = ["Scalars", "Optionals", "Repeats", "Maps", "Oneofs", "Wrappers", "Times", "Tags", "Rec", "Mixed", "Leaf", "Empty", "Words", "Holder", "Box", "Solo"]
# weights: the interesting messages more often
_WEIGHTED = (
    ["Scalars"] * 4 + ["Optionals"] * 4 + ["Repeats"] * 4 + ["Maps"] * 4 + ["Oneofs"] * 4 + ["Wrappers"] * 2
    + ["Times"] * 2 + ["Tags"] * 2 + ["Rec"] * 2 + ["Mixed"] * 2 + ["Leaf", "Empty"] + ["Words"] * 3 + ["Holder"] * 3 + ["Box"] + ["Solo"] * 2
)


def tree_strats(c=None, **kw) -> TreeStrategies:
    c = c or corpus()
    return TreeStrategies(c.schema, **kw)


def msg_tree_strategy(c=None, names=None, **kw):
    """{'msg': name, 'tree': tree} over the corpus messages."""
    c = c or corpus()
    ts = tree_strats(c, **kw)
    pool = names or _WEIGHTED

    @st.composite
    def s(draw):
        name = draw(st.sampled_from(pool))
        return {"msg": name, "tree": draw(ts.message(f"ks.{name}"))}

    return s()


_PLAIN_CLASSES = {"pos", "finite", "nonempty", "true", "false", "zero", "posfrac"}


def describe(schema: Schema, fi: FI, v) -> str:
    """'<kind>=<value classes>'; in containers only the corner classes are named (else 'std')."""
    if fi.card == "repeated":
        cls = sorted({_vc(schema, fi, x) for x in v} - _PLAIN_CLASSES) or (["std"] if v else ["none"])
    elif fi.card == "map":
        pairs = list(v.items() if isinstance(v, dict) else v)
        cls = sorted({_vc(schema, fi.val, x) for _, x in pairs} - _PLAIN_CLASSES) or (["std"] if pairs else ["none"])
    else:
        cls = [_vc(schema, fi, v)]
    return f"{fi.kind}={'+'.join(cls)}"


def _vc(schema: Schema, fi: FI, v) -> str:
    c = value_class(fi, v)
    if fi.type == "enum" and v not in schema.enums[fi.enum].numbers:
        c += "_undef"
    return c


_CULPRIT_CACHE: Dict[Any, List[str]] = {}


def culprits(schema: Schema, mi: MI, tree, fails: Callable[[MI, Any], bool], depth: int = 0, cache_key=None) -> List[str]:
    """Cached front end of _culprits: the same clause on the same multiset of (kind, value class) is localised once."""
    if cache_key is None or depth:
        return _culprits(schema, mi, tree, fails, depth)
    key = (cache_key, mi.full_name, tuple(sorted(describe(schema, fi, tree[fi.name]) for fi in mi.fields if fi.name in tree)))
    hit = _CULPRIT_CACHE.get(key)
    if hit is None:
        hit = _CULPRIT_CACHE[key] = _culprits(schema, mi, tree, fails, depth)
    return hit


def _culprits(schema: Schema, mi: MI, tree, fails: Callable[[MI, Any], bool], depth: int = 0) -> List[str]:
    """Name the smallest part of `tree` that still fails the clause on its own.

    Each set top-level field is re-checked alone; for a message-typed culprit the sub-tree is
    re-checked as a top-level message of its own type (recursively); within repeated / map
    fields single elements are tried.  Falls back to 'interaction:<kinds>'."""
    hits = []
    for fi, single in single_field_trees(mi, tree):
        try:
            bad = fails(mi, single)
        except Exception:  # localisation is best effort
            bad = False
        if not bad:
            continue
        v = single[fi.name]
        # narrow inside containers
        if fi.card == "repeated" and len(v) > 1:
            for x in v:
                if fails(mi, {fi.name: [x]}):
                    v = [x]
                    break
        elif fi.card == "map" and len(v) > 1:
            pairs = list(v.items()) if isinstance(v, dict) else v
            for k, x in pairs:
                if fails(mi, {fi.name: [[k, x]]}):
                    v = [[k, x]]
                    break
        # descend into plain sub-messages
        sub_fi = fi.val if fi.card == "map" else fi
        if sub_fi.type == "message" and sub_fi.wkt is None and depth < 3:
            if fi.card == "repeated":
                subs = list(v)
            elif fi.card == "map":
                subs = [x for _, x in (v.items() if isinstance(v, dict) else v)]
            else:
                subs = [v]
            sub_mi = schema.msg(sub_fi.msg)
            deeper = None
            for s in subs:
                if s and fails(sub_mi, s):
                    deeper = _culprits(schema, sub_mi, s, fails, depth + 1)
                    break
            if deeper and not deeper[0].startswith("interaction"):
                hits.extend(deeper)
                continue
        hits.append(describe(schema, fi, v))
    if hits:
        return sorted(set(hits))
    kinds = sorted({describe(schema, fi, tree[fi.name]) for fi in mi.fields if fi.name in tree})
    return [("interaction:" + "&".join(kinds))[:240]]


def localise(schema: Schema, mi: MI, tree, fails: Callable[[MI, Any], bool], depth: int = 0) -> str:
    return "&".join(culprits(schema, mi, tree, fails, depth))[:240]


def failures_for(schema: Schema, mi: MI, tree, clause: str, detail: str, fails, fmt="{clause}|{where}"):
    """One Failure per culprit field (so a known finding on one field never hides another field)."""
    from ..engine import Failure

    return [Failure(clause, fmt.format(clause=clause, where=w), detail)
            for w in culprits(schema, mi, tree, fails, cache_key=(clause, fmt))]


NONTRIVIAL_MARKS = ("_undef", "=neg", "pos64", "=nan", "=inf", "=empty", "map<", "posbig", "big", "frac")


def is_nontrivial_value(schema: Schema, mi: MI, tree) -> bool:
    """>=1 field set and a corner the statements name: negative/unlisted enum, 64-bit boundary int,
    non-finite float, empty value in a presence-tracked position, present-but-empty sub-message,
    default-valued oneof/optional member, non-empty map, nesting depth >= 2."""
    if not tree:
        return False
    if tree_depth(schema, mi, tree) >= 2:
        return True
    for fi in mi.fields:
        if fi.name not in tree:
            continue
        d = describe(schema, fi, tree[fi.name])
        if fi.card == "map" and tree[fi.name]:
            return True
        if (fi.card == "optional" or fi.oneof or fi.wkt == "wrapper") and ("=zero" in d or "=empty" in d or "=false" in d):
            return True
        if fi.type == "message" and fi.wkt is None and "=empty" in d:
            return True
        if any(mark in d for mark in ("_undef", "=neg", "pos64", "=nan", "=inf", "posbig", "frac", "big")):
            return True
        if fi.type == "string" and fi.card != "map" and any(ord(ch) > 0xFFFF for x in (tree[fi.name] if fi.card == "repeated" else [tree[fi.name]]) for ch in x):
            return True
    return False


def labels_for(schema: Schema, mi: MI, tree) -> List[str]:
    labs = [f"msg:{mi.full_name.split('.')[-1]}", f"nfields:{min(len(tree), 6)}"]
    for fi in mi.fields:
        if fi.name in tree:
            labs.append("kind:" + fi.kind)
    return labs


# --------------------------------------------------------------------------- unknown records


def unused_numbers(mi: MI) -> List[int]:
    used = {f.number for f in mi.fields}
    cands = [n for n in (1, 2, 3, 14, 15, 16, 17, 100, 127, 128, 2047, 2048, 16383, 16384, 18998, 20001, 2**21, 2**28, 2**28 + 5, 2**29 - 2)]
    return [n for n in cands if n not in used]


def unknown_record_strategy(numbers: List[int]):
    """One well-formed record with an unknown number: all four wire types, nested LEN payloads."""
    num = st.sampled_from(numbers)
    varint = st.tuples(num, st.just(0), st.one_of(st.sampled_from([0, 1, 127, 128, 2**32, 2**63, 2**64 - 1]), st.integers(0, 2**64 - 1)))
    f64 = st.tuples(num, st.just(1), st.binary(min_size=8, max_size=8))
    f32 = st.tuples(num, st.just(5), st.binary(min_size=4, max_size=4))
    nested = st.lists(st.tuples(st.integers(1, 30), st.just(0), st.integers(0, 300)), max_size=3).map(
        lambda rs: b"".join(wire.make_record(*r).raw for r in rs)
    )
    ln = st.tuples(num, st.just(2), st.one_of(st.sampled_from([b"", b"\x00", b"\xff" * 3]), st.binary(max_size=10), nested,
                                              st.binary(min_size=128, max_size=140)))
    # non-minimal (padded) varints in the tag (<= 5 bytes: it is a 32-bit quantity), the length and the value: a
    # record that is kept "byte for byte" must come back exactly as it arrived
    pads = st.tuples(st.sampled_from([0, 0, 0, 3, 5]), st.sampled_from([0, 0, 0, 2, 5]), st.sampled_from([0, 0, 0, 10]))
    plain = st.tuples(st.one_of(varint, f64, f32, ln), pads).map(
        lambda t: {"n": t[0][0], "wt": t[0][1], "p": t[0][2], **({"tp": t[1][0], "lp": t[1][1], "vp": t[1][2]} if any(t[1]) else {})})
    # a well-formed (proto2) group: start marker, content, end marker; nested `depth` levels deep (parsers accept up to
    # 100 levels); an unknown group is one unknown field and is kept as a whole
    group = st.tuples(num, st.sampled_from([1, 1, 2, 3, 10, 63, 64, 65, 66, 90]), nested).map(lambda t: {"n": t[0], "wt": 3, "depth": t[1], "p": t[2]})
    return st.one_of(plain, plain, plain, plain, plain, plain, group)


def unknown_to_record(u: Dict[str, Any]) -> wire.Record:
    if u["wt"] == 3:
        raw = u["p"]
        for _ in range(u.get("depth", 1)):
            raw = wire.tag(u["n"], 3) + raw + wire.tag(u["n"], 4)
        return wire.Record(u["n"], 3, None, raw)
    return wire.make_record(u["n"], u["wt"], u["p"], tag_pad=u.get("tp", 0), len_pad=u.get("lp", 0), val_pad=u.get("vp", 0))


def interleave(known: List[wire.Record], unknown: List[wire.Record], positions: List[int]) -> List[wire.Record]:
    """Insert unknown[i] before index positions[i] (mod len+1) of the growing list; order of unknowns preserved
    relative to each other is NOT required by anyone, so they are inserted one by one."""
    out = list(known)
    for u, p in zip(unknown, positions):
        out.insert(p % (len(out) + 1), u)
    return out
