"""C12 AsyncChannel: exactly-once ordered delivery, no stranded receiver (all schedules of small configurations)."""
from __future__ import annotations

import asyncio
from collections import Counter

from hypothesis import strategies as st

from ..engine import Eval, Failure, Target
from ..sched import Deadlock, PathChooser, StepLimit, next_path, run_controlled

LEVEL = "exploration"
QUICK_SHARDS = 8
RULE = (
    "Schedules of the asyncio ready queue on a controlled event loop (one ready callback per step chosen by the "
    "harness, virtual clock, no I/O). Configurations: 1-2 senders x 1-3 items via send / send_from, 1-3 receivers via "
    "receive()-loop / async-for, one closer task (close() at a schedule-determined point, optional extra yields), "
    "unbounded and buffer_limit 1-2, optionally one cancellation of a receiver at a schedule-determined point or a "
    "wait_for timeout on the virtual clock. EXHAUSTIVE depth-first enumeration of every schedule of the small "
    "configurations (split by first choice over the shards; a configuration whose tree exceeds the budget is reported "
    "as not exhaustive) + Hypothesis choice sequences for the larger ones. Oracle = history invariants at quiescence: "
    "no item invented or received twice; every item whose send completed before close() was called is received "
    "exactly once (by a scenario receiver or by the final draining receiver); per-sender order; after close every "
    "receiver task is done; a later send raises ChannelClosed; a future receive terminates; the cancelled / timed-out "
    "receiver ends with exactly that cancellation / timeout and the rest still satisfies the above. Non-trivial = "
    "schedule in which close() runs while >=1 receiver is blocked and >=1 item is buffered or in flight, or a "
    "cancellation delivered while the receiver is blocked in receive."
)
ASSUMPTIONS = ["granularity = asyncio callbacks of the installed CPython 3.12 (the whole schedule space of single-threaded asyncio code)",
               "a sender still blocked on a full bounded buffer when close() is called may or may not get its item delivered"]

BIG = 10_000.0


class FalsyItem(tuple):
    """An item whose truth value is False - like 0, "" or a protobuf message holding only defaults (Message.__bool__)."""

    def __bool__(self):
        return False


def run_scenario(cfg, chooser, max_steps=20000):
    """Run one schedule. Returns (violations [(clause, detail)], info)."""
    from betterproto.grpc.util.async_channel import AsyncChannel, ChannelClosed, ChannelDone

    S = {"seq": 0, "sent": [], "send_err": [], "recv": [], "close_seq": None, "blocked": set(), "rx_end": {},
         "nontrivial": False, "cancel_while_blocked": False, "inflight_at_close": 0, "blocked_at_close": 0}

    def tick():
        S["seq"] += 1
        return S["seq"]

    prebuilt = []
    if cfg.get("prebuilt"):
        # the channel is created by synchronous set-up code, before the loop that will use it exists (what asyncio's
        # "current" loop is at that moment - here a decoy that never runs - must not matter)
        decoy = asyncio.new_event_loop()
        try:
            asyncio.set_event_loop(decoy)
            prebuilt.append(AsyncChannel(buffer_limit=cfg.get("buffer", 0)))
        finally:
            asyncio.set_event_loop(None)
            decoy.close()

    async def main():
        ch = prebuilt[0] if prebuilt else AsyncChannel(buffer_limit=cfg.get("buffer", 0))
        # bystanders: receivers blocked on ANOTHER channel of the same process for the whole scenario (what one channel
        # knows about its waiting receivers is its own business)
        other, bystanders = None, []
        if cfg.get("bystanders"):
            other = AsyncChannel()
            for j in range(cfg["bystanders"]):
                bystanders.append(asyncio.ensure_future(other.receive() if j % 2 == 0 else other.__anext__()))
            await asyncio.sleep(0)
        sender_items = []
        n = 0
        for s in cfg["senders"]:
            mk = FalsyItem if cfg.get("falsy_items") else tuple
            sender_items.append([mk((len(sender_items), k)) for k in range(s["items"])])
        all_items = [it for items in sender_items for it in items]

        async def sender(i, spec):
            if spec.get("delay"):
                await asyncio.sleep(spec["delay"])
            items = sender_items[i]
            if spec["mode"] == "send":
                for it in items:
                    try:
                        await ch.send(it)
                        S["sent"].append((it, tick()))
                    except ChannelClosed:
                        S["send_err"].append((it, tick()))
                        return
            else:
                class Src:
                    def __init__(self):
                        self.i = 0

                    def __iter__(self):
                        return self

                    def __next__(self):
                        # the previous item's put() has completed when the next one is requested
                        if self.i > 0:
                            S["sent"].append((items[self.i - 1], tick()))
                        if self.i >= len(items):
                            raise StopIteration
                        self.i += 1
                        return items[self.i - 1]

                try:
                    if spec["mode"] == "send_from_close":
                        # the sender itself closes the channel behind its last item; there is no separate closer
                        await ch.send_from(Src(), close=True)
                        if S["close_seq"] is None:
                            S["blocked_at_close"] = len(S["blocked"])
                            S["inflight_at_close"] = len(S["sent"]) - len(S["recv"])
                            if len(S["blocked"]) > max(S["inflight_at_close"], 0) + 1:
                                S["nontrivial"] = True
                            S["close_seq"] = tick()
                    else:
                        await ch.send_from(Src())
                except ChannelClosed:
                    S["send_err"].append((None, tick()))

        async def receiver(i, spec):
            try:
                if spec["mode"] == "receive":
                    while True:
                        S["blocked"].add(i)
                        try:
                            if spec.get("timeout"):
                                x = await asyncio.wait_for(ch.receive(), timeout=spec["timeout"])
                            else:
                                x = await ch.receive()
                        except ChannelDone:
                            break
                        finally:
                            S["blocked"].discard(i)
                        if x is None:
                            if ch.done():
                                break
                            continue
                        S["recv"].append((tick(), i, x))
                else:
                    S["blocked"].add(i)
                    async for x in ch:
                        S["blocked"].discard(i)
                        S["recv"].append((tick(), i, x))
                        S["blocked"].add(i)
                    S["blocked"].discard(i)
                S["rx_end"][i] = "ok"
            except asyncio.CancelledError:
                S["rx_end"][i] = "cancelled"
                raise
            except asyncio.TimeoutError:
                S["rx_end"][i] = "timeout"
            except BaseException as e:  # noqa: BLE001
                S["rx_end"][i] = f"error:{type(e).__name__}:{e}"

        async def closer():
            if any(sp["mode"] == "send_from_close" for sp in cfg["senders"]):
                return
            if cfg.get("closer_vdelay"):
                await asyncio.sleep(cfg["closer_vdelay"])
            for _ in range(cfg.get("closer_delay", 0)):
                await asyncio.sleep(0)
            S["blocked_at_close"] = len(S["blocked"])
            S["inflight_at_close"] = len(S["sent"]) - len(S["recv"])
            if S["blocked"] and S["inflight_at_close"] > 0:
                S["nontrivial"] = True
            S["close_seq"] = tick()
            ch.close()

        rx_tasks = [asyncio.ensure_future(receiver(i, spec)) for i, spec in enumerate(cfg["receivers"])]
        tx_tasks = [asyncio.ensure_future(sender(i, spec)) for i, spec in enumerate(cfg["senders"])]
        close_task = asyncio.ensure_future(closer())
        cancel_task = None
        cn = cfg.get("cancel")
        if cn:
            async def canceller():
                for _ in range(cn.get("delay", 0)):
                    await asyncio.sleep(0)
                if cn["target"] in S["blocked"]:
                    S["cancel_while_blocked"] = True
                    S["nontrivial"] = True
                rx_tasks[cn["target"]].cancel()

            cancel_task = asyncio.ensure_future(canceller())
        await asyncio.sleep(BIG)  # virtual clock: fires exactly when nothing else can run (quiescence)
        q1 = {"rx_done": [t.done() for t in rx_tasks], "tx_done": [t.done() for t in tx_tasks], "closed": ch.closed()}
        # a later send must be refused
        later = "not_attempted"
        if ch.closed():
            try:
                await asyncio.wait_for(ch.send(("late", 0)), timeout=BIG / 10)
                later = "accepted"
            except ChannelClosed:
                later = "ChannelClosed"
            except BaseException as e:  # noqa: BLE001
                later = f"{type(e).__name__}"
        drained = []

        async def drain():
            while True:
                try:
                    x = await ch.receive()
                except ChannelDone:
                    return "ChannelDone"
                if x is None:
                    if ch.done():
                        return "None"
                    continue
                drained.append(x)

        dt = asyncio.ensure_future(drain())
        await asyncio.sleep(BIG)
        q2 = {"drain_done": dt.done(), "drain_result": (dt.result() if dt.done() and not dt.cancelled() and dt.exception() is None else (repr(dt.exception()) if dt.done() and not dt.cancelled() else None))}
        rx_exc = []
        for t in rx_tasks:
            if t.done() and not t.cancelled() and t.exception() is not None:
                rx_exc.append(f"{type(t.exception()).__name__}: {t.exception()}")
        if other is not None:
            still = [t for t in bystanders if not t.done()]
            if len(still) != len(bystanders):
                rx_exc.append(f"bystander receivers on another channel ended during the scenario: {len(bystanders) - len(still)} of {len(bystanders)}")
            other.close()
            for t in bystanders:
                t.cancel()
        return all_items, sender_items, q1, q2, later, drained, rx_exc

    out = []
    try:
        (all_items, sender_items, q1, q2, later, drained, rx_exc), loop = run_controlled(main, chooser, max_steps=max_steps)
    except StepLimit:
        return [("__inconclusive_step_limit", "step cap hit")], S
    except Deadlock:
        return [("main_task_deadlocked", "the harness main task could not finish (lost wake-up inside the channel?)")], S
    cn = cfg.get("cancel")
    # I1: nothing invented, nothing twice
    got = [x for _, _, x in S["recv"]] + drained
    cnt = Counter(got)
    for x, k in cnt.items():
        if x not in all_items:
            out.append(("item_invented", f"{x!r}"))
        elif k > 1:
            out.append(("item_received_twice", f"{x!r} x{k}"))
    # I2: completed-before-close => exactly once
    cs = S["close_seq"]
    for it, seq in S["sent"]:
        if cs is None or seq < cs:
            if cnt.get(it, 0) != 1:
                out.append(("item_lost", f"{it!r} sent (seq {seq}) before close (seq {cs}) received {cnt.get(it, 0)} times; drained={drained!r}"))
    # I3: per-sender order among scenario receivers
    for si, items in enumerate(sender_items):
        seq_items = [x for _, _, x in sorted(S["recv"]) if x[0] == si]
        if seq_items != sorted(seq_items, key=lambda t: t[1]):
            out.append(("order_violated", f"sender {si}: received order {seq_items!r}"))
    # I4: no stranded receiver
    if q1["closed"]:
        for i, d in enumerate(q1["rx_done"]):
            if not d:
                out.append(("receiver_stranded_after_close", f"receiver {i} ({cfg['receivers'][i]['mode']}) still pending at quiescence"))
    elif not any(sp["mode"] == "send_from_close" for sp in cfg["senders"]):
        # (a sender that closes behind its last item never gets there when nobody takes its items: nothing to check)
        out.append(("close_never_happened", "harness: closer did not run"))
    # I5
    if later not in ("ChannelClosed", "not_attempted"):
        out.append(("send_after_close_not_refused", later))
    # I7: future receive terminates
    if not q2["drain_done"]:
        out.append(("future_receive_does_not_terminate", "a receive() loop started after quiescence is still pending"))
    elif q2["drain_result"] not in ("ChannelDone", "None"):
        out.append(("future_receive_fails", str(q2["drain_result"])))
    # I6: receiver endings
    for i, spec in enumerate(cfg["receivers"]):
        end = S["rx_end"].get(i)
        if cn and cn["target"] == i:
            if end not in ("cancelled", "ok", None):  # 'ok' = already finished; None = cancelled before it ever ran
                out.append(("cancellation_surfaces_as_other_error", f"receiver {i}: {end}"))
        elif spec.get("timeout"):
            if end not in ("timeout", "ok"):
                out.append(("timeout_surfaces_as_other_error", f"receiver {i}: {end}"))
        elif end is not None and end != "ok":
            out.append(("receiver_raises", f"receiver {i}: {end}"))
    for e in rx_exc:
        if not any("receiver" in c for c, _ in out):
            out.append(("receiver_task_exception", e))
    return out, S


def run_rpc_scenario(how, chooser, n_first=2, max_steps=60000):
    """The request side of a stream-stream rpc (ServiceStub._stream_stream) is a receiver of the AsyncChannel it is
    handed.  The caller is cancelled / abandons the responses while that receiver is blocked on the empty channel; the
    channel must stay usable with no item lost: an item sent afterwards goes to the only receiver that is still
    there.  Runs on the controlled loop over grpclib's in-memory test channel.  -> [(clause, detail)]"""
    import asyncio as aio
    from dataclasses import dataclass

    import betterproto
    import grpclib.const
    from betterproto.grpc.grpclib_client import ServiceStub
    from betterproto.grpc.util.async_channel import AsyncChannel, ChannelDone
    from grpclib.testing import ChannelFor

    @dataclass(eq=False, repr=False)
    class Req(betterproto.Message):
        n: int = betterproto.int32_field(1)

    class Echo:
        def __init__(self):
            self.seen = []

        async def echo(self, stream):
            async for request in stream:
                self.seen.append(request.n)
                await stream.send_message(Req(n=request.n))

        def __mapping__(self):
            return {"/c12.Echo/Echo": grpclib.const.Handler(self.echo, grpclib.const.Cardinality.STREAM_STREAM, Req, Req)}

    class Stub(ServiceStub):
        def echo(self, it):
            return self._stream_stream("/c12.Echo/Echo", it, Req, Req)

    out = []

    async def settle(n=400):
        for _ in range(n):
            await aio.sleep(0)

    async def main():
        svc = Echo()
        async with ChannelFor([svc]) as gch:
            stub = Stub(gch)
            requests = AsyncChannel()
            responses = []

            async def caller():
                call = stub.echo(requests)
                if how == "abandon":
                    async for resp in call:
                        responses.append(resp.n)
                        if len(responses) == n_first:
                            break
                    await call.aclose()
                    return "abandoned"
                async for resp in call:
                    responses.append(resp.n)

            task = aio.ensure_future(caller())
            for k in range(n_first):
                await requests.send(Req(n=k + 1))
            for _ in range(50):
                if len(responses) == n_first:
                    break
                await settle(50)
            if responses != list(range(1, n_first + 1)):
                out.append(("__inconclusive", f"rpc did not echo the first items: {responses}"))
                task.cancel()
                try:
                    await task
                except BaseException:  # noqa: BLE001
                    pass
                return
            if how == "cancel":
                task.cancel()
            try:
                outcome = await aio.wait_for(task, BIG / 10)
            except aio.CancelledError:
                outcome = "cancelled"
            except aio.TimeoutError:
                outcome = "still_running"
            want = "cancelled" if how == "cancel" else "abandoned"
            if outcome != want:
                out.append(("cancellation_surfaces_as_other_error", f"caller ended with {outcome!r}, want {want!r}"))
            await settle()
            receiver = aio.ensure_future(requests.receive())
            await settle(50)
            await requests.send(Req(n=99))
            await settle()
            if not receiver.done():
                out.append(("item_lost", f"an item sent after the rpc's caller was {want} never reached the only receiver left (server saw {svc.seen})"))
                receiver.cancel()
            else:
                got = receiver.result()
                if got is None or got.n != 99:
                    out.append(("item_lost", f"the receiver left got {got!r}"))
            if 99 in svc.seen:
                out.append(("item_received_twice" if receiver.done() and not receiver.cancelled() and receiver.result() is not None else "item_lost",
                            f"the ended rpc still consumed the item sent afterwards (server saw {svc.seen})"))
            requests.close()
            tail = aio.ensure_future(requests.receive())
            await settle(50)
            if not tail.done():
                out.append(("receiver_stranded_after_close", "receive() after close is pending"))
                tail.cancel()
            else:
                try:
                    tail.result()
                except ChannelDone:
                    pass

    try:
        run_controlled(main, chooser, max_steps=max_steps, max_virtual_time=BIG)
    except StepLimit:
        return [("__inconclusive_step_limit", "step cap hit")]
    except Deadlock:
        out.append(("main_task_deadlocked", "the rpc scenario could not finish"))
    return out


def cfg_class(cfg):
    parts = ["bounded" if cfg.get("buffer") else "unbounded",
             "+".join(sorted({r["mode"] for r in cfg["receivers"]}))]
    if cfg.get("cancel"):
        parts.append("cancel")
    if any(r.get("timeout") for r in cfg["receivers"]):
        parts.append("timeout")
    if any(s["mode"] == "send_from" for s in cfg["senders"]):
        parts.append("send_from")
    if any(s["mode"] == "send_from_close" for s in cfg["senders"]):
        parts.append("send_from_close")
    if cfg.get("falsy_items"):
        parts.append("falsy_items")
    if cfg.get("prebuilt"):
        parts.append("built_before_the_loop")
    if cfg.get("bystanders"):
        parts.append("bystanders_on_another_channel")
    return "|".join(parts)


SMALL_CONFIGS = [
    {"name": "1s2i_2rx_receive", "senders": [{"items": 2, "mode": "send"}], "receivers": [{"mode": "receive"}, {"mode": "receive"}]},
    {"name": "1s2i_2rx_iter", "senders": [{"items": 2, "mode": "send"}], "receivers": [{"mode": "iter"}, {"mode": "iter"}]},
    {"name": "1s2i_1rx_bounded1", "senders": [{"items": 2, "mode": "send"}], "receivers": [{"mode": "receive"}], "buffer": 1},
    {"name": "1s1i_3rx_mixed", "senders": [{"items": 1, "mode": "send"}], "receivers": [{"mode": "receive"}, {"mode": "iter"}, {"mode": "receive"}]},
    {"name": "1s2i_2rx_cancel", "senders": [{"items": 2, "mode": "send"}], "receivers": [{"mode": "receive"}, {"mode": "receive"}], "cancel": {"target": 0, "delay": 0}},
    {"name": "1s1i_1rx_iter_cancel", "senders": [{"items": 1, "mode": "send"}], "receivers": [{"mode": "iter"}, {"mode": "receive"}], "cancel": {"target": 0, "delay": 1}},
    {"name": "sendfrom2_2rx", "senders": [{"items": 2, "mode": "send_from"}], "receivers": [{"mode": "receive"}, {"mode": "iter"}]},
    {"name": "sendfrom_close_1i_3rx", "senders": [{"items": 1, "mode": "send_from_close"}], "receivers": [{"mode": "receive"}, {"mode": "iter"}, {"mode": "receive"}]},
    {"name": "sendfrom_close_2i_2rx_bounded1", "senders": [{"items": 2, "mode": "send_from_close"}], "receivers": [{"mode": "iter"}, {"mode": "receive"}], "buffer": 1},
    {"name": "falsy_items_2rx_mixed", "senders": [{"items": 2, "mode": "send"}], "receivers": [{"mode": "iter"}, {"mode": "receive"}], "falsy_items": True},
    {"name": "falsy_items_sendfrom_iter", "senders": [{"items": 2, "mode": "send_from"}], "receivers": [{"mode": "iter"}], "falsy_items": True, "buffer": 1},
    {"name": "3rx_bounded1_close_only", "senders": [], "receivers": [{"mode": "receive"}, {"mode": "iter"}, {"mode": "receive"}], "buffer": 1},
    {"name": "2rx_bounded1_1s1i", "senders": [{"items": 1, "mode": "send"}], "receivers": [{"mode": "receive"}, {"mode": "receive"}], "buffer": 1},
    {"name": "timeout_then_items", "senders": [{"items": 2, "mode": "send", "delay": 7}], "receivers": [{"mode": "receive", "timeout": 5}, {"mode": "receive"}], "closer_vdelay": 10},
    {"name": "2s1i_1rx", "senders": [{"items": 1, "mode": "send"}, {"items": 1, "mode": "send"}], "receivers": [{"mode": "receive"}]},
    {"name": "prebuilt_1s1i_2rx", "senders": [{"items": 1, "mode": "send"}], "receivers": [{"mode": "receive"}, {"mode": "iter"}], "prebuilt": True},
    {"name": "bystander1_1s2i_1rx", "senders": [{"items": 2, "mode": "send"}], "receivers": [{"mode": "receive"}], "bystanders": 1},
    {"name": "bystander2_1s2i_no_rx_until_closed", "senders": [{"items": 2, "mode": "send"}], "receivers": [], "bystanders": 2},
    {"name": "bystander3_2s1i_no_rx_until_closed_bounded2", "senders": [{"items": 1, "mode": "send"}, {"items": 1, "mode": "send"}], "receivers": [], "buffer": 2, "bystanders": 3},
    {"name": "prebuilt_bounded1_sendfrom_close_2rx", "senders": [{"items": 2, "mode": "send_from_close"}], "receivers": [{"mode": "iter"}, {"mode": "receive"}], "buffer": 1, "prebuilt": True},
]
THOROUGH_CONFIGS = [
    {"name": "2s2i_2rx", "senders": [{"items": 2, "mode": "send"}, {"items": 2, "mode": "send"}], "receivers": [{"mode": "receive"}, {"mode": "iter"}]},
    {"name": "1s3i_2rx_bounded2_cancel", "senders": [{"items": 3, "mode": "send"}], "receivers": [{"mode": "receive"}, {"mode": "iter"}], "buffer": 2, "cancel": {"target": 1, "delay": 1}},
    {"name": "1s2i_3rx_bounded2", "senders": [{"items": 2, "mode": "send"}], "receivers": [{"mode": "receive"}, {"mode": "receive"}, {"mode": "iter"}], "buffer": 2},
]


def targets(ctx):
    budget = 400000 if ctx.thorough else 25000

    def probe_width(cfg):
        ch = PathChooser([])
        run_scenario(cfg, ch)
        return ch.widths[0] if ch.widths else 1

    def dfs_cases():
        for cfg in SMALL_CONFIGS + (THOROUGH_CONFIGS if ctx.thorough else []):
            for first in range(probe_width(cfg)):
                yield {"cfg": cfg, "first": first}

    def dfs_ev(case):
        cfg = case["cfg"]
        if "path" in case:  # replay of one schedule
            ch = PathChooser(case["path"])
            found, S = run_scenario(cfg, ch)
            fails = [Failure(cl, f"{cl}|{cfg_class(cfg)}", f"cfg={cfg['name']} path={case['path']} :: {d}") for cl, d in found if not cl.startswith("__")]
            return Eval(fails, nontrivial=S["nontrivial"], labels=[f"cfg:{cfg['name']}"])
        path = [case["first"]]
        n = nt = 0
        fails, seen = [], set()
        complete = True
        while path is not None:
            ch = PathChooser(path)
            found, S = run_scenario(cfg, ch)
            n += 1
            nt += 1 if S["nontrivial"] else 0
            for cl, d in found:
                if cl.startswith("__"):
                    complete = False
                    continue
                sig = f"{cl}|{cfg_class(cfg)}"
                if sig not in seen:
                    seen.add(sig)
                    fails.append(Failure(cl, sig, f"cfg={cfg['name']} path={ch.taken} :: {d}", case={"cfg": cfg, "path": list(ch.taken)}))
            nxt = next_path(ch.taken, ch.widths)
            if nxt is None or not nxt or nxt[0] != case["first"]:
                break
            path = nxt
            if n >= budget:
                complete = False
                break
        key = f"dfs_complete:{cfg['name']}"
        ctx.extra.setdefault("dfs_subtrees", {})
        ctx.extra["dfs_subtrees"][f"{cfg['name']}[{case['first']}]"] = {"schedules": n, "complete": complete}
        return Eval(fails, weight=n, nontrivial_count=nt, labels=[f"cfg:{cfg['name']}", f"complete:{complete}"])

    # random schedules over larger configurations
    def rand_ev(case):
        cfg = case["cfg"]
        ch = PathChooser(case["choices"])
        found, S = run_scenario(cfg, ch)
        fails = [Failure(cl, f"{cl}|{cfg_class(cfg)}", f"cfg={cfg} choices={case['choices']} :: {d}") for cl, d in found if not cl.startswith("__")]
        labs = [f"class:{cfg_class(cfg)}", f"blocked_at_close:{min(S['blocked_at_close'], 3)}", f"inflight_at_close:{min(max(S['inflight_at_close'], 0), 3)}",
                f"cancel_while_blocked:{S['cancel_while_blocked']}"]
        return Eval(fails, nontrivial=S["nontrivial"], labels=labs)

    @st.composite
    def cfg_strat(draw):
        ns = draw(st.integers(1, 2))
        # (now and then a long run of items: what a receiver does every n-th time is only seen with n items)
        senders = [{"items": draw(st.one_of(st.integers(1, 3), st.integers(1, 3), st.integers(1, 3), st.sampled_from([31, 32, 33, 40, 64, 70]))),
                    "mode": draw(st.sampled_from(["send", "send", "send", "send_from", "send_from_close"]))} for _ in range(ns)]
        nr = draw(st.integers(1, 3))
        receivers = [{"mode": draw(st.sampled_from(["receive", "iter"]))} for _ in range(nr)]
        cfg = {"senders": senders, "receivers": receivers, "buffer": draw(st.sampled_from([0, 0, 1, 2])),
               "closer_delay": draw(st.integers(0, 3))}
        if draw(st.integers(0, 3)) == 0:
            cfg["falsy_items"] = True
        if draw(st.integers(0, 3)) == 0:
            cfg["prebuilt"] = True
        if draw(st.integers(0, 3)) == 0:
            cfg["bystanders"] = draw(st.integers(1, 3))
        if draw(st.integers(0, 2)) == 0:
            cfg["cancel"] = {"target": draw(st.integers(0, nr - 1)), "delay": draw(st.integers(0, 4))}
        return {"cfg": cfg, "choices": draw(st.lists(st.integers(0, 5), max_size=60))}

    def rpc_ev(case):
        found = run_rpc_scenario(case["how"], PathChooser(case["choices"]), case.get("n_first", 2))
        fails = [Failure(cl, f"rpc_request_channel|{cl}|{case['how']}", f"case={case} :: {d}") for cl, d in found if not cl.startswith("__")]
        return Eval(fails, nontrivial=not any(cl.startswith("__") for cl, _ in found), labels=[f"rpc:{case['how']}"] + (["inconclusive"] if any(cl.startswith("__") for cl, _ in found) else []))

    rpc_strat = st.fixed_dictionaries({"how": st.sampled_from(["cancel", "abandon"]), "n_first": st.integers(1, 3), "choices": st.lists(st.integers(0, 5), max_size=80)})

    return [
        Target("rpc_request_channel_caller_cancelled", rpc_ev, strategy=rpc_strat, quick=12, thorough=300, time_quick=60),
        Target("all_schedules_small_configs", dfs_ev, cases=dfs_cases, exhaustive=True,
               rule="every schedule of each listed small configuration (DFS over the ready-queue choice tree)", time_quick=600, time_thorough=3000),
        Target("random_schedules_larger_configs", rand_ev, strategy=cfg_strat(), quick=1500, thorough=12000, time_quick=60),
    ]
