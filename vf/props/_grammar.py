"""Shared plumbing for value-level checks on grammar-generated schemas."""
from __future__ import annotations

import contextlib

from hypothesis import strategies as st

from .. import build, gen
from ..schema import render, schema_ast
from ..schema_info import Schema
from ..values import BPAdapter


class Compiled:
    pass


@contextlib.contextmanager
def compiled(ast, tag="g_", opts=()):
    """Yields None (with .reason) if the schema is out of domain / broken at the plugin level (C03 reports that)."""
    files = render(ast)
    comp = gen.compile_files(files, opts=opts, tag=tag)
    out = Compiled()
    out.files = files
    out.reason = None
    try:
        if comp.protoc_rejected:
            out.reason = "protoc rejects"
        elif comp.rc != 0:
            out.reason = "plugin failed (reported by C03)"
        else:
            gen.import_all(comp)
            if comp.import_errors:
                out.reason = "generated package not importable (reported by C03)"
        if out.reason is None:
            out.schema = Schema(comp.fds)
            out.ref = build.Ref(comp.fds)
            out.adapter = BPAdapter(out.schema)
            out.classes = {}
            for pkg, mod in comp.modules.items():
                for cls in gen.classes_of(mod)[0]:
                    mk = gen.marker_of_message(cls)
                    if mk:
                        out.classes[mk] = cls
            out.fulls = {fi.number: full for full, mi in out.schema.messages.items() for fi in mi.fields
                         if fi.number > 20000 and fi.name.startswith("mk")}
            out.marks = sorted(m for m in out.fulls if m in out.classes)
        yield out
    finally:
        comp.cleanup()


def strategy(max_packages=2, n_seeds=4):
    return st.tuples(schema_ast(max_packages=max_packages, services=False), st.lists(st.integers(0, 2**20), min_size=n_seeds, max_size=n_seeds)).map(
        lambda t: {"ast": t[0], "vseeds": t[1]})


def protos_text(files, n=2000):
    return "\n".join(f"# {k}\n{t}" for k, t in files.items())[:n]
