"""The classes betterproto BUNDLES for google.protobuf (Struct / Value / ListValue, FieldMask, Any, Timestamp, Duration, the
wrappers, descriptor.proto) used as messages in their own right - top level, not as fields of a corpus message.

Reference = google.protobuf's own generated modules (struct_pb2, ...).  Values are Hypothesis JSON-like trees (Struct
family), path lists, (type_url, bytes), (seconds, nanos), scalars, and - as one big real-world value - the
FileDescriptorSet protoc produced for the kitchen-sink corpus.  Both bundled libraries are exercised:
betterproto.lib.std.google.protobuf (= betterproto.lib.google.protobuf) and betterproto.lib.pydantic.google.protobuf.

Clauses (reported under the property they concern):
  C02  the reference reads bytes(m) as the value; m = parse(reference bytes) re-encodes to something the reference reads as the value
  C01  parse(bytes(m)) == m, same bytes
  C09  len(m) == len(bytes(m)); dump(SIZE_DELIMITED) == varint(len) + bytes(m) and reads back
  C18  the std and the pydantic library give the same bytes and the same to_dict (both casings) for the same value
"""
from __future__ import annotations

import math
from io import BytesIO

from hypothesis import strategies as st

from .. import wire
from ..engine import Eval, Failure, Guarded, Target, guard

CLAUSE_PROPS = {
    "wkt_bp_to_ref": {"C02"}, "wkt_ref_rejects": {"C02"}, "wkt_ref_to_bp": {"C02"},
    "wkt_roundtrip": {"C01"}, "wkt_reencode_bytes": {"C01"},
    "wkt_len_vs_bytes": {"C09"}, "wkt_dump_delimited": {"C09", "C10"}, "wkt_load_delimited": {"C09", "C10"},
    "wkt_libraries_differ_bytes": {"C18"}, "wkt_libraries_differ_dict": {"C18"},
}
WRAPPERS = {"DoubleValue": "double", "FloatValue": "float", "Int64Value": "int64", "UInt64Value": "uint64", "Int32Value": "int32",
            "UInt32Value": "uint32", "BoolValue": "bool", "StringValue": "string", "BytesValue": "bytes"}


def _ref_module(kind):
    from google.protobuf import any_pb2, descriptor_pb2, duration_pb2, empty_pb2, field_mask_pb2, struct_pb2, timestamp_pb2, wrappers_pb2

    for mod in (struct_pb2, field_mask_pb2, any_pb2, timestamp_pb2, duration_pb2, wrappers_pb2, empty_pb2, descriptor_pb2):
        if hasattr(mod, kind):
            return getattr(mod, kind)
    raise KeyError(kind)


def _json_value(v):
    """case value (JSON-able, floats as in values.canon) -> python JSON value"""
    return v


def build_ref(case):
    kind, v = case["kind"], case["v"]
    R = _ref_module(kind)
    r = R()
    if kind == "Struct":
        r.update(v)
    elif kind == "ListValue":
        r.extend(v)
    elif kind == "Value":
        from google.protobuf import json_format

        json_format.ParseDict(v, r)
    elif kind == "FieldMask":
        r.paths.extend(v)
    elif kind == "Any":
        r.type_url, r.value = v[0], v[1]
    elif kind in ("Timestamp", "Duration"):
        r.seconds, r.nanos = v
    elif kind == "Empty":
        pass
    elif kind in WRAPPERS:
        r.value = v
    elif kind == "FileDescriptorSet":
        from ._corpus import corpus

        r.CopyFrom(corpus().ref.fds)
        if v:  # a sub-set of the files, to vary the size
            keep = [f for i, f in enumerate(r.file) if i % v[0] == v[1] % v[0]]
            del r.file[:]
            r.file.extend(keep)
    else:
        raise KeyError(kind)
    return r


def evaluate(case):
    """-> list of (clause, detail)"""
    import betterproto
    import betterproto.lib.pydantic.google.protobuf as pyd
    import betterproto.lib.std.google.protobuf as std

    kind = case["kind"]
    out = []
    ref = build_ref(case)
    data = ref.SerializeToString(deterministic=True)
    R = type(ref)
    per_lib = {}
    for lib in (std, pyd):
        tag = "std" if lib is std else "pydantic"
        Cls = getattr(lib, kind)
        try:
            m = guard("parse_ref", Cls().parse, data)
            b = guard("bytes", bytes, m)
            try:
                back = R.FromString(b)
                # descriptor.proto is proto2 (explicit presence of scalars such as oneof_index = 0), which the bundled
                # classes model with proto3 semantics: value equality with the reference is outside C02's domain there
                if kind != "FileDescriptorSet" and back != ref and not (_has_nan(case["v"]) and back.SerializeToString(deterministic=True) == data):
                    out.append(("wkt_bp_to_ref", f"{tag}: reference reads bytes(m) as {str(back)[:160]!r}, value {str(ref)[:160]!r}"))
            except Exception as e:  # noqa: BLE001
                out.append(("wkt_ref_rejects", f"{tag}: {type(e).__name__}: {e}; bytes={b.hex()[:160]}"))
            n = guard("len", len, m)
            if n != len(b):
                out.append(("wkt_len_vs_bytes", f"{tag}: len(m)={n} len(bytes(m))={len(b)}"))
            s = BytesIO()
            guard("dump_delimited", m.dump, s, betterproto.SIZE_DELIMITED)
            if s.getvalue() != wire.enc_varint(len(b)) + b:
                out.append(("wkt_dump_delimited", f"{tag}: got={s.getvalue().hex()[:120]} want={(wire.enc_varint(len(b)) + b).hex()[:120]}"))
            stream = BytesIO(s.getvalue() + b"\x0a\x01x")
            try:
                m_again = Cls().load(stream, betterproto.SIZE_DELIMITED)
                if bytes(m_again) != b or stream.tell() != len(s.getvalue()):
                    out.append(("wkt_load_delimited", f"{tag}: the frame written for the message does not read back as it (stopped at {stream.tell()} of {len(s.getvalue())})"))
            except Exception as e:  # noqa: BLE001
                out.append(("wkt_load_delimited", f"{tag}: reading back the frame written for the message raises {type(e).__name__}: {e}"))
            m2 = guard("parse", Cls().parse, b)
            b2 = guard("bytes2", bytes, m2)
            if b2 != b:
                out.append(("wkt_reencode_bytes", f"{tag}: first={b.hex()[:120]} second={b2.hex()[:120]}"))
            if not _has_nan(case["v"]) and guard("eq", lambda: m2 == m) is not True:
                out.append(("wkt_roundtrip", f"{tag}: parse(bytes(m)) != m"))
            per_lib[tag] = (b, guard("to_dict_camel", m.to_dict), guard("to_dict_snake", m.to_dict, betterproto.Casing.SNAKE))
        except Guarded as g:
            out.append(("wkt_ref_to_bp", f"{tag}: raises in {g.where}: {type(g.exc).__name__}: {g.exc}"))
    if len(per_lib) == 2:
        a, b_ = per_lib["std"], per_lib["pydantic"]
        if a[0] != b_[0]:
            out.append(("wkt_libraries_differ_bytes", f"std={a[0].hex()[:120]} pydantic={b_[0].hex()[:120]}"))
        for i, casing in ((1, "camel"), (2, "snake")):
            if repr(a[i]) != repr(b_[i]):
                out.append(("wkt_libraries_differ_dict", f"casing={casing}: std={a[i]!r:.200} pydantic={b_[i]!r:.200}"))
    return out


def _has_nan(v):
    if isinstance(v, float):
        return math.isnan(v)
    if isinstance(v, (list, tuple)):
        return any(_has_nan(x) for x in v)
    if isinstance(v, dict):
        return any(_has_nan(x) for x in v.values())
    return False


def strategy():
    from ..values import bytes_strategy, float_strategy, int_strategy, text_strategy

    number = st.one_of(st.sampled_from([0.0, -0.0, 1.0, 2.5, -1e300, 1e-300, math.inf, -math.inf]), st.floats(allow_nan=False), st.integers(-1000, 1000).map(float))
    leaf = st.one_of(st.none(), st.booleans(), number, text_strategy())
    keys = st.one_of(st.sampled_from(["", "a", "number_value", "numberValue", "fields", "é", "a.b"]), st.text(max_size=6))
    jsonish = st.recursive(leaf, lambda ch: st.one_of(st.lists(ch, max_size=4), st.dictionaries(keys, ch, max_size=4)), max_leaves=12)
    struct = st.dictionaries(keys, jsonish, max_size=5)
    big_struct = st.integers(10, 200).flatmap(lambda n: st.just({f"k{i}": float(i) for i in range(n)}))
    paths = st.lists(st.sampled_from(["a", "a.b", "user.display_name", "x_y_z", "", "é"]), max_size=5)
    scal = {"double": float_strategy("double"), "float": float_strategy("float").filter(lambda x: not math.isnan(x)), "int64": int_strategy("int64"), "uint64": int_strategy("uint64"),
            "int32": int_strategy("int32"), "uint32": int_strategy("uint32"), "bool": st.booleans(), "string": text_strategy(), "bytes": bytes_strategy()}
    ts = st.tuples(st.integers(-62135596800, 253402300799), st.integers(0, 999_999_999))
    dur = st.integers(-315_576_000_000, 315_576_000_000).flatmap(
        lambda s: st.tuples(st.just(s), st.integers(0, 999_999_999).map(lambda n: -n if s < 0 else n)))
    cases = [
        struct.map(lambda v: {"kind": "Struct", "v": v}), struct.map(lambda v: {"kind": "Struct", "v": v}),
        big_struct.map(lambda v: {"kind": "Struct", "v": v}),
        jsonish.map(lambda v: {"kind": "Value", "v": v}),
        st.lists(jsonish, max_size=5).map(lambda v: {"kind": "ListValue", "v": v}),
        paths.map(lambda v: {"kind": "FieldMask", "v": v}),
        st.tuples(st.sampled_from(["", "type.googleapis.com/ks.Leaf", "x"]), bytes_strategy()).map(lambda v: {"kind": "Any", "v": list(v)}),
        ts.map(lambda v: {"kind": "Timestamp", "v": list(v)}), dur.map(lambda v: {"kind": "Duration", "v": list(v)}),
        st.just({"kind": "Empty", "v": None}),
        st.tuples(st.integers(2, 6), st.integers(0, 5)).map(list).map(lambda v: {"kind": "FileDescriptorSet", "v": v}),
    ]
    for w, t in WRAPPERS.items():
        # (-0.0: the wrapper's own `value` field has implicit presence, both zeros are "unset" there - see values.norm)
        cases.append(scal[t].map(lambda v, w=w: {"kind": w, "v": 0.0 if isinstance(v, float) and v == 0 else v}))
    return st.one_of(*cases)


def target(pid: str, quick=120, thorough=4000):
    def ev(case):
        fails = []
        for clause, detail in evaluate(case):
            if pid in CLAUSE_PROPS.get(clause, ()):
                fails.append(Failure(clause, f"wkt|{clause}|{case['kind']}", f"case={case!r:.400} :: {detail}"))
        v = case["v"]
        return Eval(fails, nontrivial=bool(v) or case["kind"] == "FileDescriptorSet", labels=[f"wkt:{case['kind']}"])

    return Target("bundled_well_known_types", ev, strategy=strategy(), quick=quick, thorough=thorough, time_quick=60)
