"""C15 Timestamp/Duration <-> datetime/timedelta conversion is exact and normalised."""
from __future__ import annotations

import re
from datetime import datetime, timedelta, timezone

from hypothesis import strategies as st

from .. import wire
from ..engine import Eval, Failure, Target, collecting, guard
from ..values import DUR_MAX_US, EPOCH, TS_MAX_US, TS_MIN_US, dur_us_strategy, split_dur, split_ts, ts_us_strategy, us_to_datetime
from ._corpus import corpus

LEVEL = "exploration"
QUICK_SHARDS = 4
RULE = (
    "Hypothesis integer microseconds over the whole valid ranges with boundary bias (epoch +-1us, second boundaries, "
    "year 1 / 9999 ends, +-2**53 us, +-max duration, negative values with fractional part, whole-millisecond "
    "fractions with leading zeros) x fixed UTC offsets in +-14h at minute resolution (aware datetimes only) x "
    "position {singular, optional, repeated, map value, oneof}. Oracle: (seconds, nanos) read by the reference "
    "decoder from betterproto's bytes == integer spec (divmod / sign normalisation) == reference "
    "FromDatetime/FromTimedelta; Timestamp nanos in [0,1e9), Duration same-sign; decode gives the identical "
    "instant / span; to_dict string is RFC 3339 UTC 'Z' / decimal seconds 's' with 0/3/6/9 digits, equals the "
    "reference ToJsonString up to trailing zeros, is accepted by the reference parser and by from_dict; from_dict gives the identical value for every legal spelling with 0-9 fractional digits. "
    "The process runs under a drawn TZ (POSIX strings incl. half-hour offsets and DST rules) for a part of the cases. Non-trivial = not a whole second, or negative, or |us|>2**53, or non-UTC offset."
)
ASSUMPTIONS = ["naive datetimes are outside the domain (README documents aware datetimes)",
               "an offset is applied only when the local wall time stays within datetime.min..max"]

class _MyDateTime(datetime):
    pass


class _MyTimeDelta(timedelta):
    pass


TS_RE = re.compile(r"^\d{4}-\d\d-\d\dT\d\d:\d\d:\d\d(\.\d{3}|\.\d{6}|\.\d{9})?Z$")
DUR_RE = re.compile(r"^-?\d+(\.\d{3}|\.\d{6}|\.\d{9})?s$")

POS = {  # position -> (message, field, wrap function tree-side, json key)
    "single": ("Times", "{k}", lambda v: v),
    "repeated": ("Times", "r_{k}", lambda v: [v]),
    "map": ("Times", "m_{k}", lambda v: {7: v}),
    "oneof": ("Times", "o_{k}", lambda v: v),
    "optional": ("Optionals", "o_{k}", lambda v: v),
}


def _strip(s: str) -> str:
    body, suffix = s[:-1], s[-1]
    if "." in body:
        body = body.rstrip("0").rstrip(".")
    return body + suffix


def fold_target(c):
    # ---- the two passes of a repeated wall-clock hour (end of DST): equal as Python values (== and hash ignore `fold`
    # for datetimes sharing a tzinfo), one hour apart as instants - in one message, in both orders
    def fold_cases():
        try:
            from zoneinfo import ZoneInfo

            zones = [ZoneInfo(z) for z in ("Europe/Berlin", "America/New_York", "Australia/Lord_Howe", "America/St_Johns")]
        except Exception:  # noqa: BLE001 - no tz database: nothing to enumerate
            zones = []
        for zi, z in enumerate(zones):
            for year in (1996, 2021, 2033):
                # find the fall-back transition of that year: scan days for an hour whose fold=1 twin has another offset
                d = datetime(year, 1, 1, 0, 30, tzinfo=z)
                for _ in range(366 * 48):
                    d1 = d.replace(fold=1)
                    if d1.utcoffset() != d.utcoffset():
                        for usec in (0, 1, 999_999):
                            for order in (0, 1):
                                yield {"zone": zi, "wall": [d.year, d.month, d.day, d.hour, d.minute, 7, usec], "order": order}
                        break
                    d = (d.replace(tzinfo=None) + timedelta(minutes=30)).replace(tzinfo=z)

    def fold_ev(case):
        from zoneinfo import ZoneInfo

        z = [ZoneInfo(n) for n in ("Europe/Berlin", "America/New_York", "Australia/Lord_Howe", "America/St_Johns")][case["zone"]]
        w = datetime(*case["wall"], tzinfo=z)
        pair = [w.replace(fold=0), w.replace(fold=1)]
        if case["order"]:
            pair.reverse()
        want = []
        for d in pair:
            off = d.utcoffset()
            naive_us = (d.replace(tzinfo=None) - datetime(1970, 1, 1)) // timedelta(microseconds=1)
            want.append(naive_us - off // timedelta(microseconds=1))
        T = c.bp("Times")
        fails = []
        try:
            m = guard("build", lambda: T(r_ts=list(pair), ts=pair[1], m_ts={1: pair[0], 2: pair[1]}, o_ts=pair[0]))
            b = guard("bytes", bytes, m)
            r = c.rf("Times").FromString(b)
            got = [x.seconds * 10**6 + x.nanos // 1000 for x in r.r_ts]
            if got != want:
                fails.append(Failure("fold_instants", "fold|instants_on_the_wire|repeated", f"case={case!r}: reference reads {got}, the two passes are {want}"))
            single = [r.ts.seconds * 10**6 + r.ts.nanos // 1000, r.m_ts[1].seconds * 10**6 + r.m_ts[1].nanos // 1000,
                      r.m_ts[2].seconds * 10**6 + r.m_ts[2].nanos // 1000, r.o_ts.seconds * 10**6 + r.o_ts.nanos // 1000]
            if single != [want[1], want[0], want[1], want[0]]:
                fails.append(Failure("fold_instants", "fold|instants_on_the_wire|other_positions", f"case={case!r}: {single} vs {want}"))
            m2 = guard("parse", T().parse, b)
            back = [(x - EPOCH) // timedelta(microseconds=1) for x in m2.r_ts]
            if back != want:
                fails.append(Failure("fold_roundtrip", "fold|decode_roundtrip", f"case={case!r}: decoded {back} want {want}"))
            d = guard("to_dict", m.to_dict)
            m3 = guard("from_dict", T().from_dict, d)
            back = [(x - EPOCH) // timedelta(microseconds=1) for x in m3.r_ts]
            if back != want:
                fails.append(Failure("fold_json", "fold|json_roundtrip", f"case={case!r}: {d.get('rTs')} -> {back} want {want}"))
            if guard("len", len, m) != len(b):
                fails.append(Failure("fold_len", "fold|len_vs_bytes", f"case={case!r}"))
        except Exception as e:  # noqa: BLE001
            from ..engine import Guarded

            if not isinstance(e, Guarded):
                raise
            fails.append(Failure(f"raises_{e.where}", f"fold|raises_{e.where}_{type(e.exc).__name__}", str(e)))
        return Eval(fails, nontrivial=True, labels=[f"fold_zone:{case['zone']}", f"fold_order:{case['order']}"])

    return Target("dst_fold_pairs", fold_ev, cases=fold_cases, exhaustive=True,
                  rule="for 4 DST zones x 3 years x 3 fractions x 2 orders: the two passes (fold=0 / fold=1) of one wall-clock time of the repeated hour, in one message: instants on the wire, decode, JSON, len")


def targets(ctx):
    from google.protobuf import duration_pb2, timestamp_pb2

    c = corpus()
    from . import _poison

    _poison_fn = lambda: _poison.apply(c)  # noqa: E731

    def get_pair(data: bytes, msg: str, field: str, pos: str):
        """(seconds, nanos) as the reference decoder sees the field."""
        r = c.rf(msg).FromString(data)
        v = getattr(r, field)
        if pos == "repeated":
            v = v[0]
        elif pos == "map":
            v = v[7]
        return v.seconds, v.nanos

    @collecting
    def clauses(out, kind, us, off, pos, off_us=0, subclass=False):
        msg, ftmpl, wrap = POS[pos]
        k = "ts" if kind == "ts" else "dur"
        field = ftmpl.format(k=k)
        cls = c.bp(msg)
        if kind == "ts":
            py = us_to_datetime(us, off)
            if off_us and off and py.utcoffset():
                # an offset with a seconds / microseconds part (legal for Python's fixed-offset zones)
                py = py.astimezone(timezone(timedelta(minutes=off, microseconds=off_us)))
            want = split_ts(us)
            ref = timestamp_pb2.Timestamp()
            if off_us:
                ref.seconds, ref.nanos = want  # (the reference's FromDatetime itself drops sub-second offsets: spec only)
            else:
                ref.FromDatetime(py)
        else:
            py = timedelta(microseconds=us)
            want = split_dur(us)
            ref = duration_pb2.Duration()
            ref.FromTimedelta(py)
        if (ref.seconds, ref.nanos) != want:
            raise RuntimeError(f"oracles disagree: spec {want} reference {(ref.seconds, ref.nanos)}")
        if subclass:
            # an instance of a SUBCLASS of datetime / timedelta (what freezegun, pandas or a project's own types hand over)
            if kind == "ts":
                py = _MyDateTime(py.year, py.month, py.day, py.hour, py.minute, py.second, py.microsecond, tzinfo=py.tzinfo)
            else:
                py = _MyTimeDelta(microseconds=us)
        m = guard("build", lambda: cls(**{field: wrap(py)}))
        b = guard("bytes", bytes, m)
        try:
            got = get_pair(b, msg, field, pos)
        except Exception as e:  # noqa: BLE001
            out.append(("ref_rejects_bytes", f"{type(e).__name__}: {e} bytes={b.hex()}"))
            got = None
        if got is not None:
            if got != want:
                out.append(("seconds_nanos", f"got={got} want={want} bytes={b.hex()}"))
            s, n = got
            if kind == "ts" and not (0 <= n < 10**9):
                out.append(("timestamp_nanos_range", f"nanos={n}"))
            if kind == "dur" and ((s > 0 and n < 0) or (s < 0 and n > 0) or abs(n) >= 10**9):
                out.append(("duration_sign", f"seconds={s} nanos={n}"))
        m2 = guard("parse", cls().parse, b)
        v2 = guard("getattr", getattr, m2, field)
        if pos == "repeated":
            v2 = v2[0] if len(v2) == 1 else v2
        elif pos == "map":
            v2 = v2.get(7, "missing")
        if not (isinstance(v2, (datetime, timedelta)) and v2 == py):
            out.append(("decode_roundtrip", f"got={v2!r} want={py!r}"))
        # also decode the reference's serialisation
        rm = c.rf(msg)()
        tgt = getattr(rm, field)
        if pos == "repeated":
            tgt = tgt.add()
        elif pos == "map":
            tgt = tgt[7]
        tgt.seconds, tgt.nanos = want
        tgt.SetInParent()
        m3 = guard("parse_ref", cls().parse, rm.SerializeToString())
        v3 = getattr(m3, field)
        if pos == "repeated":
            v3 = v3[0] if len(v3) == 1 else v3
        elif pos == "map":
            v3 = v3.get(7, "missing")
        if not (isinstance(v3, (datetime, timedelta)) and v3 == py):
            out.append(("decode_reference_bytes", f"got={v3!r} want={py!r}"))
        # JSON form
        d = guard("to_dict", m.to_dict)
        from betterproto.casing import camel_case

        key = camel_case(field)
        js = d.get(key)
        if pos == "repeated":
            js = js[0] if isinstance(js, list) and js else js
        elif pos == "map":
            js = (js or {}).get(7, (js or {}).get("7")) if isinstance(js, dict) else js
        zero_single = pos == "single" and us == 0
        if js is None and zero_single:
            pass  # implicit presence: default not emitted
        elif not isinstance(js, str):
            out.append(("json_form_missing", f"to_dict={d!r}"))
        else:
            rx = TS_RE if kind == "ts" else DUR_RE
            if not rx.match(js):
                out.append(("json_syntax", f"{js!r}"))
            if _strip(js) != _strip(ref.ToJsonString()):
                out.append(("json_vs_reference", f"got={js!r} reference={ref.ToJsonString()!r}"))
            try:
                chk = type(ref)()
                chk.FromJsonString(js)
                if (chk.seconds, chk.nanos) != want:
                    out.append(("json_reference_reads_differently", f"{js!r} -> {(chk.seconds, chk.nanos)} want {want}"))
            except Exception as e:  # noqa: BLE001
                out.append(("json_rejected_by_reference", f"{js!r}: {e}"))
            m4 = guard("from_dict", cls().from_dict, d)
            v4 = getattr(m4, field)
            if pos == "repeated":
                v4 = v4[0] if len(v4) == 1 else v4
            elif pos == "map":
                v4 = v4.get(7, "missing") if isinstance(v4, dict) else v4
            if not (isinstance(v4, (datetime, timedelta)) and v4 == py):
                out.append(("json_roundtrip", f"{js!r} -> {v4!r} want {py!r}"))

        # input with a UTC offset other than Z (RFC 3339; accepted by proto3 JSON parsers): the same instant
        if kind == "ts" and off and not off_us and isinstance(js, str):
            text = py.isoformat()
            dd = {key: [text] if pos == "repeated" else ({"7": text} if pos == "map" else text)}
            m5 = guard("from_dict_offset", cls().from_dict, dd)
            v5 = getattr(m5, field)
            if pos == "repeated":
                v5 = v5[0] if len(v5) == 1 else v5
            elif pos == "map":
                v5 = v5.get(7, "missing") if isinstance(v5, dict) else v5
            if not (isinstance(v5, datetime) and v5 == py):
                out.append(("json_offset_input", f"{text!r} -> {v5!r} want {py!r}"))
            elif guard("bytes_offset", bytes, m5) != b:
                out.append(("json_offset_input", f"{text!r} encodes as {bytes(m5).hex()} want {b.hex()}"))

        # every legal spelling of the same value: the spec accepts any number (0-9) of fractional digits as long as
        # the value fits nanosecond precision; the value must come back identical whichever one is used
        whole, frac = divmod(abs(us), 10**6) if kind == "dur" else divmod(us, 10**6)
        f6 = f"{frac:06d}".rstrip("0")
        for nd in range(len(f6), 10):
            if nd == 0:
                fr = ""
            else:
                fr = "." + f6.ljust(nd, "0")
            if kind == "dur":
                text = ("-" if us < 0 else "") + f"{whole}{fr}s"
            else:
                text = (EPOCH + timedelta(seconds=whole)).strftime("%Y-%m-%dT%H:%M:%S").rjust(19, "0") + fr + "Z"
            dd = {key: [text] if pos == "repeated" else ({"7": text} if pos == "map" else text)}
            m6 = guard("from_dict_spelling", cls().from_dict, dd)
            v6 = getattr(m6, field)
            if pos == "repeated":
                v6 = v6[0] if len(v6) == 1 else v6
            elif pos == "map":
                v6 = v6.get(7, "missing") if isinstance(v6, dict) else v6
            if not (isinstance(v6, (datetime, timedelta)) and v6 == py):
                out.append(("json_alt_spelling", f"{nd} fractional digits: {text!r} -> {v6!r} want {py!r}"))
                break

    def vclass(kind, us, off):
        parts = [kind]
        if us < 0:
            parts.append("neg")
        if us % 10**6:
            parts.append("frac")
            f = abs(us) % 10**6
            if f % 1000 == 0:
                parts.append("ms_lt100" if f < 100_000 else "ms")
        if abs(us) > 2**53:
            parts.append("big")
        if off:
            parts.append("tz")
        return parts

    def ev(case):
        # the time zone of the PROCESS must not matter (aware datetimes only): a drawn POSIX TZ is installed for the case
        import os
        import time

        tzenv = case.get("tzenv")
        old = os.environ.get("TZ")
        if tzenv:
            os.environ["TZ"] = tzenv
            time.tzset()
        try:
            return ev_(case)
        finally:
            if tzenv:
                if old is None:
                    os.environ.pop("TZ", None)
                else:
                    os.environ["TZ"] = old
                time.tzset()

    def ev_(case):
        kind, us, off, pos = case["kind"], case["us"], case.get("off", 0), case["pos"]
        if kind == "ts" and off:
            local = us + off * 60 * 10**6
            if not (TS_MIN_US <= local <= TS_MAX_US):
                off = 0
        off_us = case.get("off_us", 0) if (kind == "ts" and off) else 0
        import decimal

        prec = case.get("decimal_prec")
        if prec:
            # the ambient decimal context belongs to the host application
            with decimal.localcontext() as dctx:
                dctx.prec = prec
                found = clauses(kind, us, off, pos, off_us, bool(case.get('subclass')))
        else:
            found = clauses(kind, us, off, pos, off_us, bool(case.get('subclass')))
        vc = vclass(kind, us, off) + (["subsecond_offset"] if off_us else [])
        fails = [Failure(cl, f"{cl}|{kind}|{pos}|{'+'.join(vc[1:]) or 'plain'}", f"case={case!r} :: {d}") for cl, d in found]
        return Eval(fails, nontrivial=len(vc) > 1, labels=[f"pos:{pos}", f"process_tz:{case.get('tzenv') or 'as_is'}", f"decimal_prec:{case.get('decimal_prec') or 'default'}", f"subclass_value:{bool(case.get('subclass'))}"] + [f"vc:{x}" for x in vc])

    @st.composite
    def strat(draw):
        kind = draw(st.sampled_from(["ts", "dur"]))
        pos = draw(st.sampled_from(list(POS)))
        prec = draw(st.sampled_from([None, None, None, None, 6, 12, 9]))
        sub = draw(st.integers(0, 7)) == 0
        tzenv = draw(st.sampled_from([None, None, None, "UTC0", "IST-5:30", "NST3:30NDT,M3.2.0,M11.1.0", "XYZ12", "CET-1CEST,M3.5.0,M10.5.0/3"]))
        if kind == "ts":
            us = draw(ts_us_strategy())
            off = draw(st.one_of(st.just(0), st.sampled_from([60, -60, 330, -840, 840, 1, -1, 345]), st.integers(-840, 840)))
            if off and draw(st.integers(0, 5)) == 0:
                # an instant whose LOCAL wall clock reads a special moment (the epoch, a day / year boundary)
                local = draw(st.sampled_from([0, 0, 1, -1, 86_400_000_000, -86_400_000_000, 1_000_000, 946_684_800_000_000]))
                us = local - off * 60 * 10**6
            extra = {}
            if off and draw(st.integers(0, 5)) == 0:
                extra["off_us"] = draw(st.sampled_from([500_000, 1, -1, 30_000_000, 999_999, -29_500_000]))
            if prec:
                extra["decimal_prec"] = prec
            if sub:
                extra["subclass"] = True
            return {"kind": kind, "us": us, "off": off, "pos": pos, **({"tzenv": tzenv} if tzenv else {}), **extra}
        return {"kind": kind, "us": draw(dur_us_strategy()), "pos": pos, **({"tzenv": tzenv} if tzenv else {}), **({"decimal_prec": prec} if prec else {}), **({"subclass": True} if sub else {})}

    from . import _seq

    return [fold_target(c),
            Target("conversions", ev, poison=_poison_fn, strategy=strat(), quick=1500, thorough=20000, time_quick=70), _seq.target("C15")]
