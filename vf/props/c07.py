"""C07 Oneof exclusivity holds after any history of operations (model-based / stateful)."""
from __future__ import annotations

import copy
import json
import pickle

from hypothesis import strategies as st

from .. import wire
from ..engine import Eval, Failure, Guarded, Target, guard
from ..values import BPAdapter, BPInfo, norm_single
from ._corpus import corpus

LEVEL = "exploration"
QUICK_SHARDS = 4
RULE = (
    "Histories = Hypothesis lists (<=30 quick / <=50 thorough steps) of operations over the corpus message Oneofs "
    "(3 groups of int32/string/bool/enum/message/bytes/double/sint64/empty-message/recursive-message/fixed32/"
    "Timestamp/Duration/uint64/aliased-enum/float members + non-oneof fields): construct with kwargs (0..1 member per "
    "group; low-weight rule with >=2 members of one group), set member to default / non-default, set non-oneof field, "
    "parse spec-encoded bytes holding 0..n members in generated order (some of them as records of a wire type that does not fit the member: unknown fields) into a fresh or into the current message, "
    "from_dict (classmethod / instance, both casings), copy, deepcopy, pickle round trip, read-only observers. The same "
    "interpreter is also driven by a hypothesis.stateful RuleBasedStateMachine, and runs on variants: pydantic dataclasses, single-member groups, odd group / member names, hand-written classes (public field API) whose oneof members are declared interleaved. Oracle after EVERY step = reference "
    "model {group -> member | None} (last write wins): which_one_of names the model's member and value; reading any "
    "other member raises AttributeError; bytes(m) holds exactly that member of the group (spec record parser and "
    "reference WhichOneof); to_dict (both casings) has that member's key and no sibling's. Non-trivial = history with "
    ">=1 switch between members of one group and >=1 default-valued assignment or multi-member parse."
)
ASSUMPTIONS = ["for >=2 constructor kwargs of one group the model only requires some single passed member, consistently"]

GROUPS = {
    "g1": ["a_int32", "a_string", "a_bool", "a_color", "a_leaf"],
    "g2": ["b_bytes", "b_double", "b_sint64", "b_empty", "b_rec", "b_fixed32"],
    "g3": ["c_ts", "c_dur", "c_uint64", "c_plain", "c_float"],
}
VALUES = {  # member -> (default, non-default alternatives)
    "a_int32": (0, [5, -1]), "a_string": ("", ["x", "é"]), "a_bool": (False, [True]), "a_color": (0, [1, -1, 77]),
    "a_leaf": ({}, [{"i": 3}, {"s": "q"}]),
    "b_bytes": (b"", [b"\x00", b"yz"]), "b_double": (0.0, [1.5, float("inf")]), "b_sint64": (0, [-2, 2**40]),
    "b_empty": ({}, [{}]), "b_rec": ({}, [{"i32": 1}, {"ostr": ""}]), "b_fixed32": (0, [9]),
    "c_ts": (0, [1_500_000, -1]), "c_dur": (0, [-1_500_000, 1]), "c_uint64": (0, [2**64 - 1]), "c_plain": (0, [1, -5]),
    "c_float": (0.0, [0.5]),
}
PLAIN = {"before": (0, [4]), "middle": ("", ["m"]), "after": ([], [[1, 2]])}
MEMBER_GROUP = {m: g for g, ms in GROUPS.items() for m in ms}
ANY = "<any value>"


class Cfg:
    def __init__(self, name, msg, opts, groups, values, plain, handwritten=False):
        self.name, self.msg, self.opts, self.GROUPS, self.VALUES, self.PLAIN = name, msg, tuple(opts), groups, values, plain
        self.MEMBER_GROUP = {m: g for g, ms in groups.items() for m in ms}
        self.handwritten = handwritten


_HAND = {}


def handwritten_interleaved(cls):
    """A hand-written twin of the generated class (public field API): the same fields, declared the way people write
    them by hand - in an order in which the members of one oneof group are NOT next to each other (round robin over the
    groups, plain fields in between). Registered in this module so that pickle finds it."""
    import dataclasses
    import sys

    import betterproto

    if cls in _HAND:
        return _HAND[cls]
    info = BPInfo.of(cls)
    rows = []
    seen = {}
    for f in dataclasses.fields(cls):
        meta = betterproto.FieldMetadata.get(f)
        k = seen[meta.group] = seen.get(meta.group, -1) + 1
        rows.append((k if meta.group else 1, f.name, info.hints[f.name], meta))
    rows.sort(key=lambda r: (r[0], r[1]))
    fields = [(n, h, betterproto.dataclass_field(m.number, m.proto_type, map_types=m.map_types, group=m.group, wraps=m.wraps, optional=bool(m.optional)))
              for _, n, h, m in rows]
    name = f"{cls.__name__}HandWritten"
    out = dataclasses.make_dataclass(name, fields, bases=(betterproto.Message,), eq=False, repr=False, module=__name__)
    setattr(sys.modules[__name__], name, out)
    _HAND[cls] = out
    return out


ODD_GROUPS = {"payloadKind": ["_2d", "_3d"], "Route": ["viaA", "via_b"], "value__type": ["URL", "class"]}
ODD_VALUES = {"_2d": (0, [5, -1]), "_3d": ("", ["x"]), "viaA": (False, [True]), "via_b": ({}, [{"i": 3}]), "URL": (0, [7]), "class": ("", ["c"])}
SOLO_GROUPS = {"only": ["s_text"], "other": ["s_leaf"], "third": ["s_num"]}
SOLO_VALUES = {"s_text": ("", ["x", "é"]), "s_leaf": ({}, [{"i": 3}, {"s": "q"}]), "s_num": (0, [5, -1])}
CFGS = {
    "default": Cfg("default", "Oneofs", (), GROUPS, VALUES, PLAIN),
    # generated as pydantic dataclasses (oneof members become Optional fields guarded by a validator)
    "pydantic": Cfg("pydantic", "Oneofs", ("pydantic_dataclasses",), GROUPS, VALUES, PLAIN),
    # groups with a single member each
    "solo": Cfg("solo", "Solo", (), SOLO_GROUPS, SOLO_VALUES, PLAIN),
    "solo_pydantic": Cfg("solo_pydantic", "Solo", ("pydantic_dataclasses",), SOLO_GROUPS, SOLO_VALUES, PLAIN),
    # group and member names that are not lower_snake_case (camelCase / capitalised / double underscore groups; members
    # starting with an underscore, upper-case, keyword)
    "odd_names": Cfg("odd_names", "OddNames", (), ODD_GROUPS, ODD_VALUES, {"plain": (0, [4])}),
    "odd_names_pydantic": Cfg("odd_names_pydantic", "OddNames", ("pydantic_dataclasses",), ODD_GROUPS, ODD_VALUES, {"plain": (0, [4])}),
    # hand-written classes (public field API) whose oneof members are declared interleaved, not group by group
    "handwritten": Cfg("handwritten", "Oneofs", (), GROUPS, VALUES, PLAIN, handwritten=True),
    "handwritten_odd": Cfg("handwritten_odd", "OddNames", (), ODD_GROUPS, ODD_VALUES, {"plain": (0, [4])}, handwritten=True),
}


def op_strategy(cfg=None):
    cfg = cfg or CFGS["default"]
    GROUPS, VALUES, PLAIN, MEMBER_GROUP = cfg.GROUPS, cfg.VALUES, cfg.PLAIN, cfg.MEMBER_GROUP
    member = st.sampled_from(sorted(MEMBER_GROUP))

    def val_for(m):
        d, alts = VALUES[m]
        return st.one_of(st.just(d), st.sampled_from(alts))

    mv = member.flatmap(lambda m: st.tuples(st.just(m), val_for(m)))
    one_per_group = st.fixed_dictionaries({}, optional={g: st.sampled_from(ms).flatmap(lambda m: st.tuples(st.just(m), val_for(m))) for g, ms in GROUPS.items()})
    plain = st.fixed_dictionaries({}, optional={k: st.one_of(st.just(d), st.sampled_from(a)) for k, (d, a) in PLAIN.items()})
    ops = [
        st.tuples(one_per_group, plain).map(lambda t: {"op": "construct", "members": [list(v) for v in t[0].values()], "plain": t[1]}),
        mv.map(lambda t: {"op": "set", "member": t[0], "value": t[1]}),
        mv.map(lambda t: {"op": "set", "member": t[0], "value": t[1]}),
        mv.map(lambda t: {"op": "set", "member": t[0], "value": VALUES[t[0]][0]}),
        st.sampled_from(sorted(PLAIN)).flatmap(lambda k: st.tuples(st.just(k), st.one_of(st.just(PLAIN[k][0]), st.sampled_from(PLAIN[k][1])))).map(lambda t: {"op": "set_plain", "field": t[0], "value": t[1]}),
        st.tuples(st.lists(mv, max_size=5), st.booleans()).map(lambda t: {"op": "parse", "records": [list(x) for x in t[0]], "fresh": t[1]}),
        st.tuples(st.lists(st.tuples(mv, st.sampled_from([False, False, True])), min_size=1, max_size=5), st.booleans()).map(
            lambda t: {"op": "parse", "records": [list(x[0]) + ([True] if x[1] else []) for x in t[0]], "fresh": t[1]}),
        st.tuples(one_per_group, st.sampled_from(["class", "instance"]), st.sampled_from(["camel", "snake"])).map(
            lambda t: {"op": "from_dict", "members": [list(v) for v in t[0].values()], "form": t[1], "casing": t[2]}),
        st.sampled_from(["copy", "deepcopy", "pickle"]).map(lambda k: {"op": k}),
        st.sampled_from(["bytes", "to_dict", "repr", "eq", "to_json", "len", "bool"]).map(lambda k: {"op": "observe", "what": k}),
    ]
    big = [g for g in sorted(GROUPS) if len(GROUPS[g]) >= 2]
    if not big:
        return st.one_of(*ops)
    multi = st.sampled_from(big).flatmap(
        lambda g: st.lists(st.sampled_from(GROUPS[g]), min_size=2, max_size=3, unique=True).flatmap(
            lambda ms: st.tuples(*[st.tuples(st.just(m), val_for(m)) for m in ms]))
    ).map(lambda t: {"op": "construct_multi", "members": [list(x) for x in t]})
    return st.one_of(*ops, *ops, multi)


class Interp:
    """Applies operations to the real message and to the reference model; checks the invariant."""

    def __init__(self, cfg=None):
        import betterproto

        self.cfg = cfg = cfg or CFGS["default"]
        self.bp = betterproto
        self.c = corpus(opts=cfg.opts)
        self.schema = self.c.schema
        self.cls = self.c.bp(cfg.msg)
        if cfg.handwritten:
            self.cls = handwritten_interleaved(self.cls)
        self.mi = self.schema.msg("ks." + cfg.msg)
        self.info = BPInfo.of(self.cls)
        self.adapter = BPAdapter(self.schema)
        self.m = self.cls()
        self.model = {g: None for g in self.cfg.GROUPS}  # group -> (member, tree value)
        self.others = []  # [(message, frozen model, how the successor was obtained)]
        self.switches = 0
        self.default_sets = 0
        self.multi_parse = 0
        # Python attribute name of every member / plain field, and the key to_dict uses for a member (learned from a
        # message holding only that member: which key it is belongs to C05 / C19, that there is exactly one to C07)
        self.pyn = {fi.name: self.info.pyname(fi) for fi in self.mi.fields}
        self._keys = {}

    def key_of(self, member, casing):
        k = (member, casing)
        if k not in self._keys:
            d, alts = self.cfg.VALUES[member]
            msg = self.cls(**{self.pyn[member]: self.py(member, alts[0])})
            dd = msg.to_dict(self.bp.Casing.CAMEL if casing == "camel" else self.bp.Casing.SNAKE)
            if len(dd) != 1:
                raise Guarded("to_dict_for_key", AssertionError(f"to_dict of a message with only {member} set has keys {sorted(dd)}"))
            self._keys[k] = next(iter(dd))
        return self._keys[k]

    # -- helpers
    def py(self, member, v):
        fi = self.mi.by_name(member)
        return self.adapter.single(self.info.elem_class(fi), fi, v, False)

    def select(self, member, v):
        g = self.cfg.MEMBER_GROUP[member]
        if self.model[g] is not None and self.model[g][0] != member:
            self.switches += 1
        self.model[g] = (member, v)

    def apply(self, op):
        k = op["op"]
        if k == "construct":
            kw = {self.pyn[m]: self.py(m, v) for m, v in op["members"]}
            kw.update({self.pyn[f]: v for f, v in op["plain"].items()})
            self.m = guard("construct", lambda: self.cls(**kw))
            self.model = {g: None for g in self.cfg.GROUPS}
            for m, v in op["members"]:
                self.model[self.cfg.MEMBER_GROUP[m]] = (m, v)
                if v == self.cfg.VALUES[m][0]:
                    self.default_sets += 1
        elif k == "construct_multi":
            kw = {self.pyn[m]: self.py(m, v) for m, v in op["members"]}
            try:
                self.m = self.cls(**kw)
            except Exception:  # rejecting >=2 members of one group is acceptable
                return
            g = self.cfg.MEMBER_GROUP[op["members"][0][0]]
            self.model = {gg: None for gg in self.cfg.GROUPS}
            name = self.bp.which_one_of(self.m, g)[0]
            name = {v: k for k, v in self.pyn.items()}.get(name, name)
            passed = {m: v for m, v in op["members"]}
            if name not in passed:
                raise Guarded("construct_multi", AssertionError(f"which_one_of names {name!r}, not one of the passed {sorted(passed)}"))
            self.model[g] = (name, passed[name])  # adopt; all other observers must agree from now on
        elif k == "set":
            m, v = op["member"], op["value"]
            guard("setattr", setattr, self.m, self.pyn[m], self.py(m, v))
            self.select(m, v)
            if v == self.cfg.VALUES[m][0]:
                self.default_sets += 1
        elif k == "set_plain":
            guard("setattr_plain", setattr, self.m, self.pyn[op["field"]], copy.deepcopy(op["value"]))
        elif k == "parse":
            recs = []
            for m, v, *misfit in op["records"]:
                fi = self.mi.by_name(m)
                wt, p = wire._enc_single(self.schema, fi, v)
                if misfit and misfit[0]:
                    # the member's NUMBER with a wire type that does not fit its declared type: an unknown field as far
                    # as the group is concerned - it selects nothing and deselects nothing
                    wt, p = (0, 7) if wt != 0 else (2, b"zz")
                recs.append(wire.make_record(fi.number, wt, p))
            data = b"".join(r.raw for r in recs)
            if op["fresh"]:
                self.m = guard("parse_fresh", self.cls().parse, data)
                self.model = {g: None for g in self.cfg.GROUPS}
            else:
                guard("parse_into", self.m.parse, data)
            seen = {}
            for m, v, *misfit in op["records"]:
                if misfit and misfit[0]:
                    self.misfits = getattr(self, "misfits", 0) + 1
                    continue
                g = self.cfg.MEMBER_GROUP[m]
                seen[g] = seen.get(g, 0) + 1
                fi = self.mi.by_name(m)
                prev = self.model[g]
                if fi.type == "message" and fi.wkt is None and prev is not None and prev[0] == m:
                    # protobuf merges repeated occurrences of one message member, betterproto replaces; the
                    # statement claims the selected *member*, not merge semantics -> value not compared
                    v = ANY
                self.select(m, v)
            if any(n > 1 for n in seen.values()):
                self.multi_parse += 1
        elif k == "from_dict":
            from betterproto.casing import camel_case

            d = {}
            for m, v in op["members"]:
                fi = self.mi.by_name(m)
                msg = self.cls(**{self.pyn[m]: self.py(m, v)})
                dd = msg.to_dict(self.bp.Casing.CAMEL if op["casing"] == "camel" else self.bp.Casing.SNAKE, include_default_values=False)
                key = self.key_of(m, op["casing"])
                if key not in dd:
                    raise Guarded("to_dict_for_input", AssertionError(f"to_dict of a message with only {m} set lacks key {key!r}: {dd!r}"))
                d[key] = dd[key]
            d = json.loads(json.dumps(d))
            if op["form"] == "class":
                self.m = guard("from_dict_cls", self.cls.from_dict, d)
                self.model = {g: None for g in self.cfg.GROUPS}
            else:
                guard("from_dict_inst", self.m.from_dict, d)
            for m, v in op["members"]:
                self.select(m, v)
        elif k in ("copy", "deepcopy", "pickle"):
            # the original stays alive with its own (frozen) model: later operations on the copy must not
            # change what the original reports
            self.others = (self.others + [(self.m, dict(self.model), k)])[-2:]
            if k == "copy":
                self.m = guard("copy", copy.copy, self.m)
            elif k == "deepcopy":
                self.m = guard("deepcopy", copy.deepcopy, self.m)
            else:
                self.m = guard("pickle", lambda: pickle.loads(pickle.dumps(self.m)))
        elif k == "observe":
            w = op["what"]
            fn = {"bytes": lambda: bytes(self.m), "to_dict": lambda: self.m.to_dict(), "repr": lambda: repr(self.m),
                  "eq": lambda: self.m == self.m, "to_json": lambda: self.m.to_json(), "len": lambda: len(self.m),
                  "bool": lambda: bool(self.m)}[w]
            guard(f"observe_{w}", fn)
        else:
            raise AssertionError(k)

    def check(self):
        """Invariant on the current message and on every retained original: list of (clause, detail)."""
        out = self.check_one(self.m, self.model)
        for m, model, how in self.others:
            out += [(f"original_after_{how}:{cl}", d) for cl, d in self.check_one(m, model)]
        return out

    def check_one(self, msg, model):
        out = []
        bp = self.bp
        try:
            b = guard("bytes", bytes, msg)
            recs = wire.parse_records(b)
            ref = self.c.rf(self.cfg.msg).FromString(b)
            dicts = {"camel": guard("to_dict_camel", msg.to_dict, bp.Casing.CAMEL), "snake": guard("to_dict_snake", msg.to_dict, bp.Casing.SNAKE)}
            from betterproto.casing import camel_case

            for g, members in self.cfg.GROUPS.items():
                sel = model[g]
                name, val = guard("which_one_of", bp.which_one_of, msg, g)
                if sel is None:
                    if (name, val) != ("", None):
                        out.append(("which_one_of_should_be_unset", f"{g}: got {name!r}"))
                else:
                    fi = self.mi.by_name(sel[0])
                    if name != self.pyn[sel[0]]:
                        out.append(("which_one_of_wrong_member", f"{g}: got {name!r} want {self.pyn[sel[0]]!r}"))
                    elif sel[1] != ANY:
                        from ..values import _bp_snap_single

                        got = norm_single(self.schema, fi, _bp_snap_single(self.schema, self.info, fi, val))
                        want = norm_single(self.schema, fi, sel[1])
                        if got != want:
                            out.append(("which_one_of_wrong_value", f"{sel[0]}: got {got!r} want {want!r}"))
                for m in members:
                    fi = self.mi.by_name(m)
                    selected = sel is not None and sel[0] == m
                    try:
                        getattr(msg, self.pyn[m])
                        readable = True
                    except AttributeError:
                        readable = False
                    if readable != selected:
                        out.append(("unselected_member_readable" if readable else "selected_member_unreadable", f"{m}"))
                    fit_wt = wire._enc_single(self.schema, fi, self.cfg.VALUES[m][1][0])[0]
                    on_wire = any(r.number == fi.number and r.wt == fit_wt for r in recs)  # (a record of another wire type is an unknown field)
                    if on_wire != selected:
                        out.append(("wire_has_unselected_member" if on_wire else "wire_lacks_selected_member", f"{m} bytes={b.hex()[:120]}"))
                    for casing, d in dicts.items():
                        key = self.key_of(m, casing)
                        if (key in d) != selected:
                            out.append(("dict_has_unselected_member" if key in d else "dict_lacks_selected_member", f"{m} casing={casing} dict={d!r:.200}"))
                rw = ref.WhichOneof(g)
                if rw != (sel[0] if sel else None):
                    out.append(("reference_which_oneof", f"{g}: reference {rw!r} model {sel[0] if sel else None!r}"))
        except Guarded as gd:
            out.append((f"raises_{gd.where}_{type(gd.exc).__name__}", str(gd)))
        return out


def run_history(ops, cfg=None):
    """-> (failures [(clause, step_op, detail)], stats)"""
    it = Interp(cfg)
    fails = []
    for i, op in enumerate(ops):
        try:
            it.apply(op)
        except Guarded as g:
            fails.append((f"raises_{g.where}_{type(g.exc).__name__}", op, f"step {i}: {g}"))
            break
        bad = it.check()
        if bad:
            for cl, d in bad:
                fails.append((cl, op, f"step {i} ({op['op']}): {d}"))
            break  # tainted: no cascading invariants
    return fails, it


def _after(op, cfg=None):
    VALUES = (cfg or CFGS["default"]).VALUES
    k = op["op"]
    if k == "set":
        return f"set:{op['member']}:{'default' if op['value'] == VALUES[op['member']][0] else 'value'}"
    if k == "parse":
        return f"parse:{'fresh' if op['fresh'] else 'into'}:{'+'.join(sorted({r[0] + ('~misfit' if len(r) > 2 else '') for r in op['records']})) or 'none'}"
    if k == "from_dict":
        return f"from_dict:{op['form']}"
    if k == "observe":
        return f"observe:{op['what']}"
    return k


def targets(ctx):
    def ev(case):
        ops = case["ops"]
        cfg = CFGS[case.get("cfg", "default")]
        tag = "" if cfg.name == "default" else f"{cfg.name}|"
        fails, it = run_history(ops, cfg)
        fs = [Failure(cl, f"{tag}{cl}|after:{_after(op, cfg)}"[:200], f"cfg={cfg.name} history={ops!r:.900} :: {d}") for cl, op, d in fails]
        nontrivial = it.switches >= 1 and (it.default_sets >= 1 or it.multi_parse >= 1)
        labs = [f"len:{min(len(ops) // 5 * 5, 30)}", f"switches:{min(it.switches, 5)}", f"default_sets:{min(it.default_sets, 3)}",
                f"multi_parse:{min(it.multi_parse, 2)}"] + sorted({f"op:{o['op']}" for o in ops})
        return Eval(fs, nontrivial=nontrivial, labels=labs + [f"cfg:{cfg.name}"])

    max_len = 50 if ctx.thorough else 30
    strat = st.lists(op_strategy(), min_size=1, max_size=max_len).map(lambda ops: {"ops": ops})

    def variant_strat():
        return st.sampled_from(["pydantic", "solo", "solo_pydantic", "solo_pydantic", "odd_names", "odd_names", "odd_names_pydantic", "handwritten", "handwritten", "handwritten_odd"]).flatmap(
            lambda name: st.lists(op_strategy(CFGS[name]), min_size=1, max_size=max_len).map(lambda ops: {"ops": ops, "cfg": name}))

    def stateful(ctx_, n, seed):
        from hypothesis import HealthCheck, Phase, seed as hseed, settings
        from hypothesis.stateful import RuleBasedStateMachine, invariant, rule, run_state_machine_as_test

        col = ctx_.col

        class OneofMachine(RuleBasedStateMachine):
            def __init__(self):
                super().__init__()
                self.it = Interp()
                self.ops = []
                self.tainted = False

            @rule(op=op_strategy())
            def step(self, op):
                if self.tainted:
                    return
                self.ops.append(op)
                found = []
                try:
                    self.it.apply(op)
                    found = self.it.check()
                except Guarded as g:
                    found = [(f"raises_{g.where}_{type(g.exc).__name__}", str(g))]
                if found:
                    self.tainted = True
                    ev_ = Eval([Failure(cl, f"{cl}|after:{_after(op)}"[:200], f"history={self.ops!r:.900} :: {d}") for cl, d in found])
                    col.add("oneof_histories", {"ops": list(self.ops)}, ev_)

            def teardown(self):
                if not self.tainted and self.ops:
                    it = self.it
                    col.add("oneof_state_machine", {"ops": list(self.ops)},
                            Eval([], nontrivial=it.switches >= 1 and (it.default_sets >= 1 or it.multi_parse >= 1),
                                 labels=["machine", f"switches:{min(it.switches, 5)}"]))

        run_state_machine_as_test(
            hseed(seed)(OneofMachine),
            settings=settings(max_examples=n, stateful_step_count=max_len, database=None, deadline=None,
                              suppress_health_check=list(HealthCheck), phases=[Phase.generate], report_multiple_bugs=False),
        )

    return [
        __import__("vf.props._inherit", fromlist=["target"]).target(__import__("vf.props._corpus", fromlist=["corpus"]).corpus()),
        Target("oneof_histories", ev, strategy=strat, quick=250, thorough=3000, time_quick=80),
        Target("oneof_histories_variants", ev, strategy=variant_strat(), quick=200, thorough=3000, time_quick=80),
        Target("oneof_state_machine", ev, stateful=stateful, quick=40, thorough=400),
        *__import__("vf.props._thr", fromlist=["target"]).target(ctx, ['tiny_oneof', 'oneof_history', 'tiny_parse']),
    ]
