"""C06 Proto3 defaults and field presence are encoded and recovered correctly."""
from __future__ import annotations

from hypothesis import strategies as st

from .. import wire
from ..engine import Eval, Failure, Target, collecting, guard
from ..schema_info import INT_RANGES
from ..values import BPAdapter, BPInfo, norm, snap_bp, snap_ref, to_ref
from . import _common as cm
from ._corpus import corpus

LEVEL = "exploration"
QUICK_SHARDS = 4
RULE = (
    "Presence matrix, enumerated exhaustively: every field of every corpus message (all kinds x singular / optional / "
    "repeated / map / oneof / wrapper / Timestamp / Duration) x state {never set, set to the type default, set to a "
    "non-default value} x route {constructor, attribute assignment, assignment inside a lazily created sub-message "
    "(depth 1 and 2), parse of spec-encoded bytes, from_dict of the reference's JSON dict}; plus Hypothesis "
    "combinations of several presence-tracked fields decoded from reference-produced bytes. Oracle = model written "
    "from the statement + reference: fresh message reads defaults and encodes to b''; an implicit-presence default is "
    "never emitted; a set optional / oneof / wrapper member is emitted even at its default; a plain sub-message is "
    "emitted iff serialized_on_wire reports it; after decoding, is_set / which_one_of / 'is not None' / "
    "serialized_on_wire == reference HasField / WhichOneof. Non-trivial = every cell other than 'never set'; "
    "combinations with >=2 presence-tracked fields."
)
ASSUMPTIONS = [
    "plain singular Timestamp/Duration fields are excluded from the presence-report clause (exposed as datetime/"
    "timedelta, for which the statement's observer does not exist)",
]
ALL_EXHAUSTIVE = False


def nondefault(schema, fi):
    t = fi.wraps if fi.wkt == "wrapper" else fi.type
    if fi.wkt == "timestamp":
        return 1_500_000
    if fi.wkt == "duration":
        return -1_500_000
    if t == "message":
        sub = schema.msg(fi.msg)
        for f in sub.fields:
            if f.card == "single" and not f.oneof and f.type != "message":
                return {f.name: nondefault(schema, f)}
        return {}
    if t in INT_RANGES:
        return 5 if INT_RANGES[t][0] == 0 else -3
    return {"float": 1.5, "double": -2.5, "bool": True, "string": "x", "bytes": b"y", "enum": 1}[t]


def default(schema, fi):
    t = fi.wraps if fi.wkt == "wrapper" else fi.type
    if fi.wkt in ("timestamp", "duration"):
        return 0
    if t == "message":
        return {}
    if t in INT_RANGES or t == "enum":
        return 0
    return {"float": 0.0, "double": 0.0, "bool": False, "string": "", "bytes": b""}[t]


def cell_tree(schema, fi, state):
    if state == "unset":
        return {}
    if fi.card == "repeated":
        return {fi.name: [] if state == "default" else [nondefault(schema, fi), default(schema, fi)]}
    if fi.card == "map":
        if state == "default":
            return {fi.name: []}
        k = nondefault(schema, fi.key)
        return {fi.name: [[k, nondefault(schema, fi.val)], [default(schema, fi.key), default(schema, fi.val)]]}
    return {fi.name: default(schema, fi) if state == "default" else nondefault(schema, fi)}


def targets(ctx):
    import betterproto
    from google.protobuf import json_format

    c = corpus()
    schema = c.schema
    adapter = BPAdapter(schema)
    MSGS = ["Scalars", "Optionals", "Repeats", "Maps", "Oneofs", "Wrappers", "Times", "Tags", "Rec", "Leaf", "Mixed", "Solo"]
    # the classes under test: the default plugin output or (case["variant"] == "pydantic") the pydantic_dataclasses output of
    # the same corpus; reference, schema and oracle are the same
    cur = {"c": c}

    def use_variant(case):
        cur["c"] = corpus(opts=("pydantic_dataclasses",)) if case.get("variant") == "pydantic" else c
        return "|pydantic" if case.get("variant") == "pydantic" else ""

    def build(cls, mi, fi, state, route, tree):
        if route == "ctor":
            return guard("ctor", adapter.build, cls, mi, tree, "kwargs")
        if route == "setattr":
            return guard("setattr", adapter.build, cls, mi, tree, "setattr")
        if route == "parse":
            return guard("parse", cls().parse, wire.encode_tree(schema, mi, tree))
        if route == "from_dict":
            d = json_format.MessageToDict(to_ref(schema, c.ref, mi.full_name, tree), use_integers_for_enums=True)
            if state == "default" and fi.json_name not in d and fi.card in ("single",) and fi.type != "message":
                # an implicit-presence default spelled out explicitly in the input dict
                dv = default(schema, fi)
                d[fi.json_name] = "" if isinstance(dv, bytes) else (str(dv) if fi.type in ("int64", "uint64", "sint64", "fixed64", "sfixed64") else dv)
            if state == "default" and fi.card in ("repeated", "map"):
                d[fi.json_name] = [] if fi.card == "repeated" else {}
            return guard("from_dict", cls().from_dict, d)
        raise AssertionError(route)

    def has_record(data: bytes, number: int) -> bool:
        return any(r.number == number for r in wire.parse_records(data))

    def presence_report(m, info, fi):
        """What betterproto's public observers say about presence of fi in m (None = not observable)."""
        name = info.pyname(fi)
        if fi.oneof:
            return betterproto.which_one_of(m, fi.oneof)[0] == name
        if fi.card == "optional":
            return m.is_set(name)
        if fi.wkt == "wrapper":
            return getattr(m, name) is not None
        if fi.card == "single" and fi.type == "message" and fi.wkt is None:
            return betterproto.serialized_on_wire(getattr(m, name))
        return None

    @collecting
    def cell_clauses(out, msg, fname, state, route):
        cls = cur["c"].bp(msg)
        mi = schema.msg(f"ks.{msg}")
        fi = mi.by_name(fname)
        info = BPInfo.of(cls)
        name = info.pyname(fi)
        tree = cell_tree(schema, fi, state)
        m = build(cls, mi, fi, state, route, tree)
        b = guard("bytes", bytes, m)
        emitted = has_record(b, fi.number)
        # the other ways a message is emitted: dump() into a stream, as a SIZE_DELIMITED frame, and embedded in a
        # parent's repeated field - the same records, framed by the same length
        from io import BytesIO

        s1, s2 = BytesIO(), BytesIO()
        guard("dump", m.dump, s1)
        guard("dump_delimited", m.dump, s2, betterproto.SIZE_DELIMITED)
        if s1.getvalue() != b:
            out.append(("emitted_differently_by_dump", f"bytes={b.hex()} dump={s1.getvalue().hex()}"))
        if s2.getvalue() != wire.enc_varint(len(b)) + b:
            out.append(("emitted_differently_in_delimited_frame", f"bytes={b.hex()} frame={s2.getvalue().hex()}"))
        elif guard("load_delimited", lambda: bytes(cls().load(BytesIO(s2.getvalue() + b"\x08\x01"), betterproto.SIZE_DELIMITED))) != b:
            out.append(("delimited_frame_reads_back_differently", f"bytes={b.hex()}"))
        tracked = fi.card == "optional" or fi.oneof or fi.wkt == "wrapper"
        plain_msg = fi.card == "single" and not fi.oneof and fi.type == "message" and fi.wkt is None
        if plain_msg:
            sow = guard("serialized_on_wire", lambda: betterproto.serialized_on_wire(getattr(m, name)))
            if emitted != sow:
                out.append(("submessage_emitted_iff_serialized_on_wire", f"emitted={emitted} serialized_on_wire={sow} bytes={b.hex()}"))
            if route in ("parse", "from_dict") and sow != (state != "unset"):
                out.append(("submessage_presence_after_load", f"state={state} serialized_on_wire={sow}"))
            if state == "nondefault" and not emitted:
                out.append(("set_value_not_emitted", f"bytes={b.hex()}"))
        elif tracked:
            if emitted != (state != "unset"):
                out.append(("explicit_presence_emission", f"state={state} emitted={emitted} bytes={b.hex()}"))
            rep = guard("presence_report", presence_report, m, info, fi)
            if rep != (state != "unset"):
                out.append(("explicit_presence_report_on_built", f"state={state} reported={rep}"))
        elif fi.card in ("repeated", "map"):
            if emitted != (state == "nondefault"):
                out.append(("container_emission", f"state={state} emitted={emitted}"))
        else:  # implicit presence scalar, plain Timestamp/Duration
            if emitted != (state == "nondefault"):
                out.append(("implicit_default_emission", f"state={state} emitted={emitted} bytes={b.hex()}"))
        # decode: presence must equal the reference's HasField / WhichOneof on the same bytes
        r = c.rf(msg).FromString(b)
        m2 = guard("reparse", cls().parse, b)
        rep2 = guard("presence_report2", presence_report, m2, info, fi)
        if rep2 is not None:
            ref_has = (r.WhichOneof(fi.oneof) == fi.name) if fi.oneof else r.HasField(fi.name)
            if rep2 != ref_has:
                out.append(("presence_after_decode_vs_reference", f"betterproto={rep2} reference={ref_has} bytes={b.hex()}"))
        got = norm(schema, mi, guard("snapshot", snap_bp, schema, mi, m2))
        want = norm(schema, mi, snap_ref(schema, mi, r))
        if got != want:
            out.append(("value_after_decode_vs_reference", f"got={got!r:.200} reference={want!r:.200}"))
        # the model's own expectation of the decoded value (state -> value)
        exp = norm(schema, mi, tree)
        if plain_msg and state == "default" and route in ("ctor", "setattr"):
            exp = {} if not (fi.msg and not schema.msg(fi.msg).fields) else exp  # Sub() alone is "nothing assigned inside"
        if got != exp and not (plain_msg and state == "default"):
            out.append(("decoded_value_vs_model", f"got={got!r:.200} model={exp!r:.200}"))

    def cells():
        for msg in MSGS:
            mi = schema.msg(f"ks.{msg}")
            for fi in mi.fields:
                for state in ("unset", "default", "nondefault"):
                    for route in ("ctor", "setattr", "parse", "from_dict"):
                        yield {"msg": msg, "field": fi.name, "state": state, "route": route}
                        if route != "ctor" or state != "unset":
                            yield {"msg": msg, "field": fi.name, "state": state, "route": route, "variant": "pydantic"}

    def cell_ev(case):
        mi = schema.msg(f"ks.{case['msg']}")
        fi = mi.by_name(case["field"])
        vtag = use_variant(case)
        found = cell_clauses(case["msg"], case["field"], case["state"], case["route"])
        fails = [Failure(cl, f"cell|{cl}|{fi.kind}|{case['state']}|{case['route']}{vtag}", f"case={case!r} :: {d}") for cl, d in found]
        return Eval(fails, nontrivial=case["state"] != "unset", labels=[f"kind:{fi.kind}", f"state:{case['state']}", f"route:{case['route']}"])

    # fresh messages
    @collecting
    def fresh_clauses(out, msg):
        cls = cur["c"].bp(msg)
        mi = schema.msg(f"ks.{msg}")
        info = BPInfo.of(cls)
        m = guard("construct", cls)
        b = guard("bytes", bytes, m)
        if b != b"":
            out.append(("fresh_not_empty", b.hex()))
        if guard("len", len, m) != 0:
            out.append(("fresh_len", str(len(m))))
        for fi in mi.fields:
            name = info.pyname(fi)
            if fi.oneof:
                if betterproto.which_one_of(m, fi.oneof) != ("", None):
                    out.append(("fresh_oneof_selected", f"{fi.oneof}"))
                continue
            v = guard("getattr", getattr, m, name)
            if fi.card == "repeated":
                ok = v == []
            elif fi.card == "map":
                ok = v == {}
            elif fi.card == "optional" or fi.wkt == "wrapper":
                ok = v is None
            elif fi.wkt == "timestamp":
                from ..values import EPOCH

                ok = v == EPOCH
            elif fi.wkt == "duration":
                from datetime import timedelta

                ok = v == timedelta(0)
            elif fi.type == "message":
                ok = isinstance(v, betterproto.Message) and bytes(v) == b"" and not betterproto.serialized_on_wire(v)
            else:
                ok = v == default(schema, fi) and type(v) in (int, float, bool, str, bytes) or (fi.type == "enum" and v == 0)
            if not ok:
                out.append(("fresh_default_value", f"{fi.name}={v!r}"))
        if guard("bytes_after_reads", bytes, m) != b"":
            out.append(("fresh_not_empty_after_reads", bytes(m).hex()))

    def fresh_cases():
        for msg in MSGS + ["Empty"]:
            yield {"fresh": msg}
            yield {"fresh": msg, "variant": "pydantic"}

    def fresh_ev(case):
        vtag = use_variant(case)
        found = fresh_clauses(case["fresh"])
        return Eval([Failure(cl, f"fresh|{cl}|{case['fresh']}{vtag}", d) for cl, d in found], nontrivial=True, labels=["fresh"])

    # a message that was RECEIVED empty - through every decoding entry point - and is then embedded as a plain sub-message
    from io import BytesIO

    RECEIVE = {
        "parse": lambda S: S().parse(b""),
        "FromString": lambda S: S.FromString(b""),
        "load": lambda S: S().load(BytesIO(b"")),
        "load_size_0": lambda S: S().load(BytesIO(b"\x08\x01"), 0),
        "load_delimited": lambda S: S().load(BytesIO(b"\x00\x08\x01"), betterproto.SIZE_DELIMITED),
        "from_dict_instance": lambda S: S().from_dict({}),
        "from_dict_class": lambda S: S.from_dict({}),
        "from_json_instance": lambda S: S().from_json("{}"),
        "from_dict_instance_unknown_key_only": lambda S: S().from_dict({"noSuchField": 1}),
        "from_pydict_instance": lambda S: S().from_pydict({}),
    }
    HOSTS = [("Scalars", "f_leaf", "Leaf"), ("Scalars", "f_empty", "Empty"), ("Scalars", "f_rec", "Rec"), ("Rec", "rec", "Rec"), ("Mixed", "scalars", "Scalars"), ("Mixed", "oneofs", "Oneofs")]

    @collecting
    def received_clauses(out, way, host, field, sub, how):
        S, H = cur["c"].bp(sub), cur["c"].bp(host)
        mi = schema.msg(f"ks.{host}")
        fi = mi.by_name(field)
        got = guard("receive", RECEIVE[way], S)
        if not betterproto.serialized_on_wire(got):
            out.append(("received_empty_not_reported_by_serialized_on_wire", f"{sub} via {way}"))
        if how == "kwargs":
            m = guard("construct", lambda: H(**{field: got}))
        else:
            m = H()
            guard("setattr", setattr, m, field, got)
        b = guard("bytes", bytes, m)
        if not has_record(b, fi.number):
            out.append(("received_empty_submessage_not_emitted", f"{host}.{field} = {sub} via {way}: bytes={b.hex()}"))
        elif not c.rf(host).FromString(b).HasField(field):
            out.append(("received_empty_submessage_not_seen_by_reference", f"bytes={b.hex()}"))
        if guard("len", len, m) != len(b):
            out.append(("received_empty_len_vs_bytes", f"len={len(m)} bytes={len(b)}"))
        m2 = guard("parse", H().parse, b)
        sub2 = getattr(m2, BPInfo.of(H).pyname(fi))
        if not betterproto.serialized_on_wire(sub2):
            out.append(("received_empty_lost_on_round_trip", f"bytes={b.hex()}"))

    def received_cases():
        for way in RECEIVE:
            for host, field, sub in HOSTS:
                for how in ("kwargs", "setattr"):
                    yield {"received": way, "host": host, "field": field, "sub": sub, "how": how}

    def received_ev(case):
        found = received_clauses(case["received"], case["host"], case["field"], case["sub"], case["how"])
        return Eval([Failure(cl, f"received|{cl}|{case['received']}|{case['sub']}", d) for cl, d in found], nontrivial=True, labels=["received:" + case["received"]])

    # nested lazy assignment: values written through lazily created sub-messages
    LAZY = {
        # name: (top message, how to mutate, expected tree as the reference must see it, field number of the sub-message)
        "scalar_depth1_default": ("Rec", lambda m: setattr(m.rec, "i32", 0), {"rec": {}}, 1),
        "scalar_depth1_value": ("Rec", lambda m: setattr(m.rec, "i32", 7), {"rec": {"i32": 7}}, 1),
        "scalar_depth2_default": ("Rec", lambda m: setattr(m.rec.rec, "i32", 0), {"rec": {"rec": {}}}, 1),
        "scalar_depth2_value": ("Rec", lambda m: setattr(m.rec.rec, "i32", 7), {"rec": {"rec": {"i32": 7}}}, 1),
        "oneof_depth1_default": ("Rec", lambda m: setattr(m.rec, "ostr", ""), {"rec": {"ostr": ""}}, 1),
        "oneof_depth1_value": ("Rec", lambda m: setattr(m.rec, "ostr", "x"), {"rec": {"ostr": "x"}}, 1),
        "oneof_msg_depth1_default": ("Scalars", lambda m: setattr(m.f_rec, "orec", cur["c"].bp("Rec")()), {"f_rec": {"orec": {}}}, 20),
        "optional_depth1_default": ("Mixed", lambda m: setattr(m.optionals, "o_int32", 0), {"optionals": {"o_int32": 0}}, 2),
        "optional_depth1_empty_string": ("Mixed", lambda m: setattr(m.optionals, "o_string", ""), {"optionals": {"o_string": ""}}, 2),
        "wrapper_depth1_default": ("Mixed", lambda m: setattr(m.wrappers, "w_int32", 0), {"wrappers": {"w_int32": 0}}, 6),
        "oneof_in_oneofs_depth1_default": ("Mixed", lambda m: setattr(m.oneofs, "a_bool", False), {"oneofs": {"a_bool": False}}, 5),
        "container_append_depth1": ("Rec", lambda m: m.rec.kids.append(cur["c"].bp("Rec")(i32=1)), {"rec": {"kids": [{"i32": 1}]}}, 1),
        "container_map_depth1": ("Rec", lambda m: m.rec.m.__setitem__("k", cur["c"].bp("Rec")(i32=1)), {"rec": {"m": [["k", {"i32": 1}]]}}, 1),
        "container_scalar_list_depth1": ("Mixed", lambda m: m.repeats.r_int32.append(5), {"repeats": {"r_int32": [5]}}, 3),
        # the value that is assigned is the very object a previous READ left in the field (small ints / "" are shared)
        "read_then_scalar_depth1_default": ("Rec", lambda m: (m.rec.i32, setattr(m.rec, "i32", 0)), {"rec": {}}, 1),
        "read_then_string_depth1_default": ("Scalars", lambda m: (m.f_leaf.s, setattr(m.f_leaf, "s", "")), {"f_leaf": {}}, 18),
        "read_then_bool_depth1_default": ("Mixed", lambda m: (m.scalars.f_bool, setattr(m.scalars, "f_bool", False)), {"scalars": {}}, 1),
        "reassign_same_list_depth1": ("Rec", lambda m: setattr(m.rec, "kids", m.rec.kids), {"rec": {}}, 1),
        "reassign_same_submessage_depth1": ("Rec", lambda m: setattr(m.rec, "leaf", m.rec.leaf), {"rec": {}}, 1),
        "top_level_container": ("Repeats", lambda m: m.r_string.append("a"), {"r_string": ["a"]}, None),
    }

    @collecting
    def lazy_clauses(out, name):
        msg, mutate, want_tree, sub_number = LAZY[name]
        cls = cur["c"].bp(msg)
        mi = schema.msg(f"ks.{msg}")
        m = cls()
        guard("mutate", mutate, m)
        b = guard("bytes", bytes, m)
        r = c.rf(msg).FromString(b)
        got = norm(schema, mi, snap_ref(schema, mi, r))
        want = norm(schema, mi, want_tree)
        if got != want:
            out.append(("lazy_assignment_lost", f"reference reads {got!r} from {b.hex()}, want {want!r}"))
        if guard("len", len, m) != len(b):
            out.append(("lazy_len_vs_bytes", f"len={len(m)} bytes={len(b)}"))
        if sub_number is not None:
            info = BPInfo.of(cls)
            sub = getattr(m, info.by_number[sub_number][0])
            emitted = has_record(b, sub_number)
            sow = betterproto.serialized_on_wire(sub)
            if emitted != sow:
                out.append(("lazy_submessage_emitted_iff_serialized_on_wire", f"emitted={emitted} serialized_on_wire={sow} bytes={b.hex()}"))

    def lazy_cases():
        for name in LAZY:
            yield {"lazy": name}

    def lazy_ev(case):
        found = lazy_clauses(case["lazy"])
        return Eval([Failure(cl, f"lazy|{cl}|{case['lazy']}", d) for cl, d in found], nontrivial=True, labels=["lazy"])

    # combinations decoded from reference bytes
    @collecting
    def combo_clauses(out, msg, tree):
        cls = cur["c"].bp(msg)
        mi = schema.msg(f"ks.{msg}")
        info = BPInfo.of(cls)
        r = to_ref(schema, c.ref, mi.full_name, tree)
        b = r.SerializeToString(deterministic=True)
        m = guard("parse", cls().parse, b)
        for fi in mi.fields:
            rep = guard("presence_report", presence_report, m, info, fi)
            if rep is None:
                continue
            ref_has = (r.WhichOneof(fi.oneof) == fi.name) if fi.oneof else r.HasField(fi.name)
            if rep != ref_has:
                out.append((f"combo_presence|{fi.kind}", f"{fi.name}: betterproto={rep} reference={ref_has}"))
        b2 = guard("bytes", bytes, m)
        r2 = c.rf(msg).FromString(b2)
        for fi in mi.fields:
            if fi.card in ("repeated", "map") or (fi.card == "single" and not fi.oneof and fi.type != "message"):
                continue
            h1 = (r.WhichOneof(fi.oneof) == fi.name) if fi.oneof else r.HasField(fi.name)
            h2 = (r2.WhichOneof(fi.oneof) == fi.name) if fi.oneof else r2.HasField(fi.name)
            if h1 != h2 and not (fi.wkt in ("timestamp", "duration") and fi.card == "single" and not fi.oneof):
                out.append((f"combo_presence_lost_on_reencode|{fi.kind}", f"{fi.name}: before={h1} after={h2}"))

    def combo_ev(case):
        msg, tree = case["msg"], case["tree"]
        mi = schema.msg(f"ks.{msg}")
        vtag = use_variant(case)
        found = combo_clauses(msg, tree)
        tracked = [fi for fi in mi.fields if fi.name in tree and fi.explicit_presence]
        return Eval([Failure(cl.split("|")[0], f"combo|{cl}{vtag}", f"case={case!r} :: {d}") for cl, d in found],
                    nontrivial=len(tracked) >= 2, labels=cm.labels_for(schema, mi, tree))

    # what is emitted, record by record: exactly the fields the value holds (never an implicit-presence default,
    # never a field twice), also next to a selected oneof member / an optional holding its default
    from collections import Counter

    from .. import wire

    def expected_counts(mi_, ntree):
        exp = Counter()
        for fi in mi_.fields:
            if fi.name not in ntree:
                continue
            v = ntree[fi.name]
            if fi.card == "repeated":
                exp[fi.number] = 1 if wire.wire_type_of(fi.type) != wire.LEN and fi.type != "message" else len(v)
            elif fi.card == "map":
                exp[fi.number] = len(v)
            else:
                exp[fi.number] = 1
        return exp

    def emission_diffs(mi_, data, ntree, path=""):
        diffs = []
        recs = wire.parse_records(data)
        got = Counter(r.number for r in recs)
        exp = expected_counts(mi_, ntree)
        if got != exp:
            names = {f.number: f.name for f in mi_.fields}
            extra = sorted(names.get(n, n) for n in got if got[n] > exp.get(n, 0))
            missing = sorted(names.get(n, n) for n in exp if exp[n] > got.get(n, 0))
            diffs.append((path or "<top>", extra, missing))
        for fi in mi_.fields:
            if fi.card in ("single", "optional") and fi.type == "message" and fi.wkt is None and fi.name in ntree:
                for r in recs:
                    if r.number == fi.number and r.wt == wire.LEN:
                        diffs += emission_diffs(schema.msg(fi.msg), r.payload, ntree[fi.name], path + "." + fi.name)
                        break
        return diffs

    emit_adapter = BPAdapter(schema)

    @collecting
    def emit_clauses(out, msg, tree, route):
        cls = cur["c"].bp(msg)
        mi = schema.msg(f"ks.{msg}")
        m = guard("build", emit_adapter.build, cls, mi, tree, route)
        b = guard("bytes", bytes, m)
        for path, extra, missing in emission_diffs(mi, b, norm(schema, mi, tree)):
            if extra:
                out.append(("emitted_although_not_held", f"at {path}: {extra}; bytes={b.hex()[:200]}"))
            if missing:
                out.append(("held_but_not_emitted", f"at {path}: {missing}; bytes={b.hex()[:200]}"))

    def emit_ev(case):
        msg, tree, route = case["msg"], case["tree"], case["route"]
        mi = schema.msg(f"ks.{msg}")
        found = emit_clauses(msg, tree, route)
        fails = []
        for clause, detail in found:
            def fails_one(mi_, single, clause=clause):
                return any(cl == clause for cl, _ in emit_clauses(mi_.full_name.split(".")[-1], single, route))

            alone = cm.culprits(schema, mi, tree, fails_one)
            for w in alone:
                fails.append(Failure(clause, f"emission|{clause}|{w}", f"msg={msg} route={route} tree={tree!r} :: {detail}"))
        nt = sum(1 for fi in mi.fields if fi.name in tree and (fi.oneof or fi.card == "optional")) >= 1 and len(tree) >= 2
        return Eval(fails, nontrivial=nt, labels=cm.labels_for(schema, mi, tree) + [f"route:{route}"])

    emit_base = cm.msg_tree_strategy(c, names=["Oneofs"] * 4 + ["Optionals"] * 3 + ["Scalars"] * 2 + ["Mixed"] * 2 + ["Rec", "Wrappers", "Times", "Repeats", "Maps", "Tags"], max_fields=8)

    @st.composite
    def emit_strat(draw):
        case = dict(draw(emit_base))
        case["route"] = draw(st.sampled_from(["kwargs", "setattr"]))
        return case

    combo = st.tuples(cm.msg_tree_strategy(c, names=["Optionals"] * 3 + ["Oneofs"] * 3 + ["Wrappers"] * 2 + ["Scalars", "Rec", "Mixed", "Times", "Solo", "Solo"]),
                      st.sampled_from(["std", "std", "pydantic"])).map(lambda t: {**t[0], "variant": t[1]})

    return [
        Target("fresh_messages", fresh_ev, cases=fresh_cases, exhaustive=True, shard_cases=False),
        Target("presence_matrix", cell_ev, cases=cells, exhaustive=True, rule="every corpus field x 3 states x 4 routes"),
        Target("received_empty_then_embedded", received_ev, cases=received_cases, exhaustive=True, shard_cases=False,
               rule="every decoding entry point (parse, FromString, load, load(size=0), load(SIZE_DELIMITED), from_dict in both forms, from_json, from_pydict) x 6 host fields x {constructor, setattr}"),
        Target("lazy_nested_assignment", lazy_ev, cases=lazy_cases, exhaustive=True, shard_cases=False),
        Target("combinations_from_reference_bytes", combo_ev, strategy=combo, quick=400, thorough=6000),
        Target("emitted_records_vs_held_fields", emit_ev, strategy=emit_strat(), quick=400, thorough=6000),
    ]
