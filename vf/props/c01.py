"""C01 Binary round trip: parse(bytes(m)) reproduces m for every message value."""
from __future__ import annotations

from hypothesis import strategies as st

from ..engine import Eval, Failure, Guarded, Target, collecting, guard
from ..values import BPAdapter, norm, snap_bp
from . import _common as cm
from ._corpus import corpus

LEVEL = "exploration"
QUICK_SHARDS = 4
RULE = (
    "Hypothesis value trees over the kitchen-sink corpus (15 scalar kinds, enums incl. negative/unlisted numbers, "
    "nested/recursive messages, repeated/packed, maps over every key kind, several oneof groups, proto3 optional, "
    "wrappers, Timestamp/Duration) x construction route {kwargs, setattr}. Oracle: m2=Cls().parse(bytes(m)): "
    "public-observer snapshot(m2)==snapshot(m) (values, selected oneof member, None-ness, nested presence), m2==m, "
    "bytes(m2)==bytes(m); also via FromString. Non-trivial = >=1 field set and a named corner (negative/unlisted "
    "enum, 64-bit boundary int, non-finite float, empty value in presence-tracked position, present-but-empty "
    "sub-message, default-valued oneof/optional member, non-empty map, depth>=2)."
)
ASSUMPTIONS = [
    "snapshots use public observers only (getattr, which_one_of, serialized_on_wire, dataclasses.fields)",
    "+0.0/-0.0 are not distinguished; two NaNs compare equal in snapshots (the == clause is separate)",
]


def make_eval(c, adapter_kw=None):
    schema = c.schema
    adapter = BPAdapter(schema, **(adapter_kw or {}))

    @collecting
    def clauses(out, name, tree, route):
        cls = c.bp(name)
        mi = schema.msg(f"ks.{name}")
        m = guard("build", adapter.build, cls, mi, tree, route)
        b = guard("bytes", bytes, m)
        m2 = guard("parse", cls().parse, b)
        a = norm(schema, mi, guard("snapshot_m", snap_bp, schema, mi, m))
        z = norm(schema, mi, guard("snapshot_m2", snap_bp, schema, mi, m2))
        if a != z:
            out.append(("roundtrip_snapshot", f"before={a!r} after={z!r} bytes={b.hex()[:160]}"))
        eq = guard("eq", lambda: m2 == m)
        if eq is not True:
            out.append(("roundtrip_eq", f"m2==m is {eq!r}; m={m!r:.300} m2={m2!r:.300}"))
        b2 = guard("bytes2", bytes, m2)
        if b2 != b:
            out.append(("reencode_bytes", f"first={b.hex()[:200]} second={b2.hex()[:200]}"))
        m3 = guard("FromString", cls.FromString, b)
        if guard("bytes3", bytes, m3) != b:
            out.append(("fromstring_reencode", "FromString(bytes(m)) re-encodes differently"))

    def fails_clause(route, clause):
        def f(mi, tree):
            name = mi.full_name.split(".")[-1]
            return any(cl == clause for cl, _ in clauses(name, tree, route))

        return f

    def ev(case):
        name, tree, route = case["msg"], case["tree"], case.get("route", "kwargs")
        mi = schema.msg(f"ks.{name}")
        found = clauses(name, tree, route)
        fails = []
        for clause, detail in found:
            fails += cm.failures_for(schema, mi, tree, clause, f"msg={name} route={route} tree={tree!r} :: {detail}",
                                     fails_clause(route, clause))
        return Eval(fails, nontrivial=cm.is_nontrivial_value(schema, mi, tree),
                    labels=cm.labels_for(schema, mi, tree) + [f"route:{route}"])

    return ev


def targets(ctx):
    c = corpus()
    base = cm.msg_tree_strategy(c)

    @st.composite
    def strat(draw):
        case = dict(draw(base))
        case["route"] = draw(st.sampled_from(["kwargs", "kwargs", "setattr"]))
        return case

    # fixed probe of a known finding that the corpus / grammar exclude by construction
    def probe_cases():
        yield {"probe": "map_of_wrapper"}

    def probe_ev(case):
        from ..build import Corpus
        from ..engine import Guarded, guard

        pc = Corpus("probe_mapwrap.proto", "probe_mapwrap")
        cls = pc.bp("MapWrap")
        fails = []
        try:
            m = guard("build", lambda: cls(m={"k": 5}))
            b = guard("bytes", bytes, m)
            try:
                ref = pc.rf("MapWrap").FromString(b)
                if dict((k, v.value) for k, v in ref.m.items()) != {"k": 5}:
                    fails.append(Failure("map_of_wrapper_encoding", "probe|map_of_wrapper|encoding", f"reference reads {ref!r:.100} from {b.hex()}"))
            except Exception as e:  # noqa: BLE001
                fails.append(Failure("map_of_wrapper_encoding", "probe|map_of_wrapper|encoding", f"reference rejects {b.hex()}: {e}"))
            m2 = guard("parse", cls().parse, b)
            if m2.m != {"k": 5}:
                fails.append(Failure("map_of_wrapper_roundtrip", "probe|map_of_wrapper|roundtrip", f"{m2.m!r}"))
        except Guarded as g:
            fails.append(Failure("map_of_wrapper_raises", f"probe|map_of_wrapper|raises_{g.where}", str(g)))
        return Eval(fails, nontrivial=True, labels=["probe"])

    return [
        Target("corpus_values", make_eval(c), strategy=strat(), quick=700, thorough=8000, time_quick=70),
        Target("known_finding_probes", probe_ev, cases=probe_cases, exhaustive=True, shard_cases=False),
    ]
