"""C01 Binary round trip: parse(bytes(m)) reproduces m for every message value."""
from __future__ import annotations

from hypothesis import strategies as st

from .. import wire
from ..engine import Eval, Failure, Guarded, Target, collecting, guard
from ..values import BPAdapter, norm, snap_bp
from . import _common as cm
from ._corpus import corpus

LEVEL = "exploration"
QUICK_SHARDS = 4
RULE = (
    "Hypothesis value trees over the kitchen-sink corpus (15 scalar kinds, enums incl. negative/unlisted numbers, "
    "nested/recursive messages, repeated/packed, maps over every key kind, several oneof groups, proto3 optional, "
    "wrappers, Timestamp/Duration) x construction route {kwargs, setattr, lazy = in-place mutation of lazily created containers / sub-messages}; plus grammar-generated schemas (vf/schema.py, "
    "compiled by the current plugin) with PRNG-drawn values (seed drawn by Hypothesis). Oracle: m2=Cls().parse(bytes(m)): "
    "public-observer snapshot(m2)==snapshot(m) (values, selected oneof member, None-ness, nested presence), m2==m, "
    "bytes(m2)==bytes(m); also via FromString. Non-trivial = >=1 field set and a named corner (negative/unlisted "
    "enum, 64-bit boundary int, non-finite float, empty value in presence-tracked position, present-but-empty "
    "sub-message, default-valued oneof/optional member, non-empty map, depth>=2)."
)
ASSUMPTIONS = [
    "snapshots use public observers only (getattr, which_one_of, serialized_on_wire, dataclasses.fields)",
    "+0.0/-0.0 are not distinguished; two NaNs compare equal in snapshots (the == clause is separate)",
]


def make_eval(c, adapter_kw=None):
    schema = c.schema
    adapters = {}

    @collecting
    def clauses(out, name, tree, route, tz=0):
        adapter = adapters.get(tz) or adapters.setdefault(tz, BPAdapter(schema, tz_offset_min=tz, **(adapter_kw or {})))
        cls = c.bp(name)
        mi = schema.msg(f"ks.{name}")
        m = guard("build", adapter.build, cls, mi, tree, route)
        b = guard("bytes", bytes, m)
        m2 = guard("parse", cls().parse, b)
        # a message filled in place through lazily created members does not carry the presence flag of the
        # intermediate message (C06's business): there, presence = flag OR content, on both sides
        mode = "sow_or_content" if route == "lazy" else "sow"
        a = norm(schema, mi, guard("snapshot_m", snap_bp, schema, mi, m, mode))
        z = norm(schema, mi, guard("snapshot_m2", snap_bp, schema, mi, m2, mode))
        if a != z:
            out.append(("roundtrip_snapshot", f"before={a!r} after={z!r} bytes={b.hex()[:160]}"))
        want = norm(schema, mi, tree)
        if route == "lazy" and z != want:
            out.append(("lazy_built_value_lost", f"decoded={z!r:.300} built from={want!r:.300} bytes={b.hex()[:160]}"))
        eq = guard("eq", lambda: m2 == m)
        if eq is not True:
            out.append(("roundtrip_eq", f"m2==m is {eq!r}; m={m!r:.300} m2={m2!r:.300}"))
        b2 = guard("bytes2", bytes, m2)
        if b2 != b:
            out.append(("reencode_bytes", f"first={b.hex()[:200]} second={b2.hex()[:200]}"))
        m3 = guard("FromString", cls.FromString, b)
        if guard("bytes3", bytes, m3) != b:
            out.append(("fromstring_reencode", "FromString(bytes(m)) re-encodes differently"))

    def fails_clause(route, clause, tz=0):
        def f(mi, tree):
            name = mi.full_name.split(".")[-1]
            return any(cl == clause for cl, _ in clauses(name, tree, route, tz))

        return f

    def ev(case):
        name, tree, route, tz = case["msg"], case["tree"], case.get("route", "kwargs"), case.get("tz", 0)
        mi = schema.msg(f"ks.{name}")
        found = clauses(name, tree, route, tz)
        fails = []
        for clause, detail in found:
            fails += cm.failures_for(schema, mi, tree, clause, f"msg={name} route={route} tz={tz} tree={tree!r} :: {detail}",
                                     fails_clause(route, clause, tz))
        return Eval(fails, nontrivial=cm.is_nontrivial_value(schema, mi, tree),
                    labels=cm.labels_for(schema, mi, tree) + [f"route:{route}", f"tz:{tz}"])

    return ev


def targets(ctx):
    c = corpus()
    from . import _poison

    _poison_fn = lambda: _poison.apply(c)  # noqa: E731
    base = cm.msg_tree_strategy(c)

    @st.composite
    def strat(draw):
        case = dict(draw(base))
        case["route"] = draw(st.sampled_from(["kwargs", "kwargs", "kwargs", "setattr", "setattr", "lazy", "lazy", "kwargs_multi"]))
        case["tz"] = draw(st.sampled_from([0, 0, 0, 330, -480, 765]))  # UTC offset of the aware datetimes put into Timestamp fields
        return case

    # ---- programs: grammar-generated schemas compiled by the current plugin, PRNG-drawn values (seed from Hypothesis)
    def grammar_ev(case):
        import random

        from .. import gen
        from ..schema import render
        from ..schema_info import Schema
        from .c18 import simple_tree

        files = render(case["ast"])
        comp = gen.compile_files(files, tag="c01g_")
        try:
            if comp.protoc_rejected:
                return Eval(discard="protoc rejects")
            if comp.rc != 0:
                return Eval(discard="plugin failed (reported by C03)")
            gen.import_all(comp)
            if comp.import_errors:
                return Eval(discard="generated package not importable (reported by C03)")
            gschema = Schema(comp.fds)
            gadapter = BPAdapter(gschema)
            classes = {}
            for pkg, mod in comp.modules.items():
                for cls in gen.classes_of(mod)[0]:
                    mk = gen.marker_of_message(cls)
                    if mk:
                        classes[mk] = cls
            fulls = {fi.number: full for full, mi in gschema.messages.items() for fi in mi.fields if fi.number > 20000 and fi.name.startswith("mk")}
            fails, n, nt, seen = [], 0, 0, set()
            for vs in case["vseeds"]:
                rng = random.Random(vs)
                marks = sorted(m for m in fulls if m in classes)
                if not marks:
                    break
                for _ in range(8):
                    mk = marks[rng.randrange(len(marks))]
                    mi = gschema.msg(fulls[mk])
                    tree = simple_tree(gschema, mi.full_name, rng)
                    n += 1
                    nt += 1 if tree else 0
                    try:
                        cls = classes[mk]
                        m = guard("build", gadapter.build, cls, mi, tree)
                        b = guard("bytes", bytes, m)
                        m2 = guard("parse", cls().parse, b)
                        a = norm(gschema, mi, guard("snapshot_m", snap_bp, gschema, mi, m))
                        z = norm(gschema, mi, guard("snapshot_m2", snap_bp, gschema, mi, m2))
                        found = []
                        if a != z:
                            found.append(("roundtrip_snapshot", f"before={a!r:.200} after={z!r:.200}"))
                        if guard("eq", lambda: m2 == m) is not True:
                            found.append(("roundtrip_eq", "m2 != m"))
                        if guard("bytes2", bytes, m2) != b:
                            found.append(("reencode_bytes", "second encoding differs"))
                        if guard("len", len, m) != len(b):
                            found.append(("len_vs_bytes", f"len={len(m)} bytes={len(b)}"))
                    except Guarded as g:
                        found = [(f"raises_{g.where}_{type(g.exc).__name__}", str(g))]
                    for cl, d in found:
                        kinds = ",".join(sorted({fi.kind for fi in mi.fields if fi.name in tree}))[:120]
                        sig = f"grammar|{cl}|{kinds}"
                        if sig not in seen:
                            seen.add(sig)
                            fails.append(Failure(cl, sig, f"{mi.full_name} tree={tree!r:.300} :: {d}\n" + "\n".join(f"# {k}\n{t}" for k, t in files.items())[:2000]))
            return Eval(fails, weight=max(1, n), nontrivial_count=nt, labels=["grammar_schema"])
        finally:
            comp.cleanup()

    from ..schema import schema_ast

    gstrat = st.tuples(schema_ast(max_packages=2, services=False), st.lists(st.integers(0, 2**20), min_size=4, max_size=4)).map(lambda t: {"ast": t[0], "vseeds": t[1]})

    # fixed probe of a known finding that the corpus / grammar exclude by construction
    def probe_cases():
        yield {"probe": "map_of_wrapper"}

    def probe_ev(case):
        from ..build import Corpus
        from ..engine import Guarded, guard

        pc = Corpus("probe_mapwrap.proto", "probe_mapwrap")
        cls = pc.bp("MapWrap")
        fails = []
        try:
            m = guard("build", lambda: cls(m={"k": 5}))
            b = guard("bytes", bytes, m)
            try:
                ref = pc.rf("MapWrap").FromString(b)
                if dict((k, v.value) for k, v in ref.m.items()) != {"k": 5}:
                    fails.append(Failure("map_of_wrapper_encoding", "probe|map_of_wrapper|encoding", f"reference reads {ref!r:.100} from {b.hex()}"))
            except Exception as e:  # noqa: BLE001
                fails.append(Failure("map_of_wrapper_encoding", "probe|map_of_wrapper|encoding", f"reference rejects {b.hex()}: {e}"))
            m2 = guard("parse", cls().parse, b)
            if m2.m != {"k": 5}:
                fails.append(Failure("map_of_wrapper_roundtrip", "probe|map_of_wrapper|roundtrip", f"{m2.m!r}"))
        except Guarded as g:
            fails.append(Failure("map_of_wrapper_raises", f"probe|map_of_wrapper|raises_{g.where}", str(g)))
        return Eval(fails, nontrivial=True, labels=["probe"])

    # ---- user-defined types that are merely named like well-known types (StringValue, Timestamp, EnumValue ... in
    # the user's own package): plain messages / enums, in every position
    _wl = {}

    def wktlike_ev(case):
        from ..build import Corpus
        from ..schema_info import Schema
        from ..values import snap_ref, to_ref

        if "c" not in _wl:
            try:
                _wl["c"] = Corpus("wktlike.proto", "wktlike")
                _wl["schema"] = Schema(_wl["c"].ref.fds)
            except Exception as e:  # noqa: BLE001 - the plugin failed / its output does not import
                _wl["c"] = None
                _wl["err"] = f"{type(e).__name__}: {str(e)[-300:]}"
        if _wl["c"] is None:
            return Eval([Failure("wktlike_schema_unusable", "wktlike|schema_unusable", _wl["err"])], nontrivial=True)
        wc, ws = _wl["c"], _wl["schema"]
        mi = ws.msg("wktlike.Holder")
        tree = case["tree"]
        cls = wc.bp("Holder")
        found = []
        try:
            m = guard("build", BPAdapter(ws).build, cls, mi, tree)
            b = guard("bytes", bytes, m)
            want = norm(ws, mi, tree)
            try:
                seen = norm(ws, mi, snap_ref(ws, mi, wc.rf("Holder").FromString(b)))
            except Exception as e:  # noqa: BLE001
                seen = f"reference rejects: {e}"
            if seen != want:
                found.append(("reference_view", f"reference reads {seen!r:.200} want {want!r:.200}"))
            m2 = guard("parse", cls().parse, to_ref(ws, wc.ref, "wktlike.Holder", tree).SerializeToString())
            got = norm(ws, mi, guard("snapshot", snap_bp, ws, mi, m2))
            if got != want:
                found.append(("roundtrip_snapshot", f"decoded {got!r:.200} want {want!r:.200}"))
            if guard("eq", lambda: cls().parse(b) == m) is not True:
                found.append(("roundtrip_eq", "parse(bytes(m)) != m"))
            if guard("len", len, m) != len(b):
                found.append(("len_vs_bytes", f"len={len(m)} bytes={len(b)}"))
            guard("to_json", m.to_json)
        except Guarded as g:
            found = [(f"raises_{g.where}_{type(g.exc).__name__}", str(g))]
        fails = []
        for cl, d in found:
            kinds = ",".join(sorted(tree))[:100]
            fails.append(Failure(cl, f"wktlike|{cl}|{kinds}", f"tree={tree!r:.300} :: {d}"))
        return Eval(fails, nontrivial=bool(tree), labels=["wktlike"] + [f"wktlike_field:{k.split('_')[0]}" for k in tree])

    def wktlike_strat():
        from ..build import load_descriptor_set, run_protoc
        from ..schema_info import Schema
        from ..values import TreeStrategies
        from .. import env
        import os

        desc = os.path.join(env.work_dir(), "wktlike_only.desc")
        cp = run_protoc(os.path.join(env.VERIF, "protos"), ["wktlike.proto"], None, desc)
        if cp.returncode != 0:
            raise RuntimeError("protoc rejects protos/wktlike.proto: " + cp.stderr[:300])
        return TreeStrategies(Schema(load_descriptor_set(desc)), max_depth=1, max_fields=5).message("wktlike.Holder").map(lambda t: {"tree": t})

    # ---- payload lengths at and around powers of two (and small multiples of them): block / buffer size thresholds
    def size_cases():
        top = 24 if ctx.thorough else 23
        sizes = set()
        for k in range(7, top + 1):
            sizes |= {2**k - 1, 2**k, 2**k + 1}
        sizes |= {3 * 2**k for k in range(10, top - 1)} | {5 * 2**20, 6 * 2**20}
        for n in sorted(sizes):
            for kind in ("bytes", "string", "nested") + (("packed",) if n <= 2**20 else ()):
                yield {"n": n, "kind": kind}

    def size_ev(case):
        n, kind = case["n"], case["kind"]
        S, L = c.bp("Scalars"), c.bp("Leaf")
        fails = []
        try:
            if kind == "bytes":
                m = S(f_bytes=b"\x07" * n)
            elif kind == "string":
                m = S(f_string="\u00e9" * (n // 2) + "x" * (n % 2))  # n bytes of UTF-8
            elif kind == "packed":
                m = c.bp("Repeats")(r_fixed64=[7] * (n // 8), r_bool=[True] * (n % 8))
            else:
                # a nested message whose own encoding is exactly n bytes: tag + length varint + text
                ln = n - 1 - 1
                while 1 + len(wire.enc_varint(ln)) + ln > n:
                    ln -= 1
                m = S(f_leaf=L(s="y" * ln), f_int32=5)
                if len(bytes(m.f_leaf)) != n:
                    return Eval(discard="no nested encoding of exactly that length")
            b = guard("bytes", bytes, m)
            m2 = guard("parse", type(m)().parse, b)
            if guard("eq", lambda: m2 == m) is not True:
                fails.append(Failure("roundtrip_eq", f"size|roundtrip_eq|{kind}", f"payload of {n} bytes"))
            if guard("bytes2", bytes, m2) != b:
                fails.append(Failure("reencode_bytes", f"size|reencode_bytes|{kind}", f"payload of {n} bytes"))
            if guard("len", len, m) != len(b):
                fails.append(Failure("len_vs_bytes", f"size|len_vs_bytes|{kind}", f"payload of {n} bytes"))
            r = c.rf(type(m).__name__).FromString(b)
            if r.SerializeToString(deterministic=True) != b:
                fails.append(Failure("reference_view", f"size|reference_reencodes_differently|{kind}", f"payload of {n} bytes"))
        except Guarded as g:
            fails.append(Failure(f"raises_{g.where}", f"size|raises_{g.where}_{type(g.exc).__name__}|{kind}", f"payload of {n} bytes: {g}"))
        return Eval(fails, nontrivial=True, labels=[f"size_kind:{kind}", f"size_log2:{n.bit_length() - 1}"])

    # ---- deep nesting: chains of 5..90 levels (the reference parser accepts 100) through a singular field, a repeated
    # field, a map value and a oneof member; the work must stay polynomial in the depth - counted in calls of
    # Message.__eq__ (a budget, not a clock: exceeding it is the failure, so a blow-up does not hang the check)
    class _Budget(Exception):
        pass

    def deep_cases():
        for depth in (5, 12, 25, 40, 60, 90):
            for via in ("rec", "kids", "m", "orec", "mixed"):
                yield {"depth": depth, "via": via}

    def deep_ev(case):
        import betterproto

        depth, via = case["depth"], case["via"]
        Rec = c.bp("Rec")
        m = Rec(i32=7, ostr="leaf")
        levels = 1
        for lvl in range(depth):
            how = via if via != "mixed" else ("rec", "kids", "m", "orec")[lvl % 4]
            levels += 2 if how == "m" else 1  # (a map entry is a message of its own)
            if how == "rec":
                m = Rec(rec=m, i32=lvl)
            elif how == "kids":
                m = Rec(kids=[m], i32=lvl)
            elif how == "m":
                m = Rec(m={"k": m}, i32=lvl)
            else:
                m = Rec(orec=m, i32=lvl)
        limit = 400 * (depth + 2) ** 2
        calls = [0]
        orig = betterproto.Message.__eq__

        def counting(a, b):
            calls[0] += 1
            if calls[0] > limit:
                raise _Budget()
            return orig(a, b)

        fails = []
        betterproto.Message.__eq__ = counting
        try:
            try:
                b = bytes(m)
                m2 = Rec().parse(b)
                if (m2 == m) is not True:
                    fails.append(Failure("roundtrip_eq", f"deep|roundtrip_eq|{via}", f"depth {depth}"))
                if bytes(m2) != b:
                    fails.append(Failure("reencode_bytes", f"deep|reencode_bytes|{via}", f"depth {depth}"))
                if len(m) != len(b):
                    fails.append(Failure("len_vs_bytes", f"deep|len_vs_bytes|{via}", f"depth {depth}: len {len(m)} bytes {len(b)}"))
                if levels <= 95:  # (the reference parser stops at 100 levels)
                    r = c.rf("Rec").FromString(b)
                    if r.SerializeToString(deterministic=True) != b:
                        fails.append(Failure("reference_view", f"deep|reference_reencodes_differently|{via}", f"depth {depth}"))
                d = m.to_dict()
                if (Rec().from_dict(d) == m) is not True:
                    fails.append(Failure("json_roundtrip_eq", f"deep|json_roundtrip_eq|{via}", f"depth {depth}"))
            except _Budget:
                fails.append(Failure("work_not_polynomial_in_depth", f"deep|work_not_polynomial_in_depth|{via}",
                                     f"depth {depth}: more than {limit} calls of Message.__eq__ during bytes / parse / == / len / to_dict / from_dict"))
            except Exception as e:  # noqa: BLE001
                fails.append(Failure("raises_deep", f"deep|raises_{type(e).__name__}|{via}", f"depth {depth}: {e}"[:300]))
        finally:
            betterproto.Message.__eq__ = orig
        ctx.extra.setdefault("deep_nesting_eq_calls", {})[f"{via}:{depth}"] = calls[0]
        return Eval(fails, nontrivial=True, labels=[f"deep_via:{via}", f"deep_depth:{depth}"])

    from . import _seq

    from . import _wkt

    return [
        Target("corpus_values", make_eval(c), poison=_poison_fn, strategy=strat(), quick=700, thorough=8000, time_quick=70),
        Target("known_finding_probes", probe_ev, cases=probe_cases, exhaustive=True, shard_cases=False),
        Target("grammar_schema_values", grammar_ev, strategy=gstrat, quick=3, thorough=40, time_quick=60, time_thorough=900, pin_budget=10, pin_sigs=1),
        Target("user_types_named_like_wkt", wktlike_ev, strategy=wktlike_strat(), quick=150, thorough=2000,
               rule="protos/wktlike.proto: user messages / enums named StringValue, BoolValue, Timestamp, Duration, Empty, EnumValue ... as singular, repeated, map-value and oneof fields; round trip and reference view"),
        Target("deep_nesting", deep_ev, cases=deep_cases, exhaustive=True,
               rule="chains of 5, 12, 25, 40, 60 and 90 nested messages through a singular field / repeated field / map value / oneof member / a mix: round trip, len, reference re-encoding, JSON round trip, and at most 400*(depth+2)**2 calls of Message.__eq__"),
        __import__("vf.props._prog", fromlist=["target"]).target("C01", c, quick=150),
        Target("payload_sizes_around_powers_of_two", size_ev, cases=size_cases, exhaustive=True,
               rule="one bytes / string / nested-message / packed payload of exactly 2**k-1, 2**k, 2**k+1 bytes (k = 7..23, thorough 24) and 3*2**k, 5 MiB, 6 MiB: round trip, len, reference re-encoding"),
        __import__("vf.props.c15", fromlist=["fold_target"]).fold_target(c),
        __import__("vf.props._inherit", fromlist=["target"]).target(c),
        _seq.target("C01"),
        _wkt.target("C01"),
        *__import__("vf.props._thr", fromlist=["target"]).target(ctx, ['parse:Leaf', 'bytes:Leaf', 'parse:Solo', 'bytes:Names']),
    ]
