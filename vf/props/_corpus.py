"""Process-wide cache of the compiled kitchen-sink corpus."""
from __future__ import annotations

from ..build import Corpus
from ..schema_info import Schema

_C = {}


def corpus(opts=(), proto="ks.proto", package="ks"):
    key = (tuple(opts), proto, package)
    c = _C.get(key)
    if c is None:
        c = Corpus(proto, package, opts=opts)
        c.schema = Schema(c.ref.fds)
        _C[key] = c
    return c
