"""Process-wide cache of the compiled kitchen-sink corpus."""
from __future__ import annotations

from ..build import Corpus
from ..schema_info import Schema

_C = {}


def corpus(opts=()):
    key = tuple(opts)
    c = _C.get(key)
    if c is None:
        c = Corpus(opts=opts)
        c.schema = Schema(c.ref.fds)
        _C[key] = c
    return c
