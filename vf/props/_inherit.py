"""Message classes defined by inheritance (hand-written code): a subclass that adds fields, a subclass of a subclass, a
subclass that adds nothing but behaviour - used in either order (the base class first or the subclass first). The
schema each class stands for is in protos/ks.proto (Leaf = the base, LeafPlus = base + added fields), so the reference
implementation judges the bytes."""
from __future__ import annotations

import dataclasses
from typing import List

from ..engine import Eval, Failure, Guarded, Target, guard


def target(c):
    import betterproto

    Leaf = c.bp("Leaf")

    def fresh_classes():
        Base = dataclasses.make_dataclass("BaseHand", [("i", int, betterproto.int32_field(1)), ("s", str, betterproto.string_field(2))],
                                          bases=(betterproto.Message,), eq=False, repr=False)
        Child = dataclasses.make_dataclass("ChildHand", [("extra", List[int], betterproto.int32_field(3)), ("inner", Leaf, betterproto.message_field(4))],
                                           bases=(Base,), eq=False, repr=False)
        Grand = dataclasses.make_dataclass("GrandHand", [("tail", str, betterproto.string_field(5))], bases=(Child,), eq=False, repr=False)
        Plain = type("PlainHand", (Base,), {"hello": lambda self: "hi"})
        return Base, Child, Grand, Plain

    ORDERS = ["base_first", "child_first", "grand_first", "plain_first"]

    def cases():
        for order in ORDERS:
            for first_op in ("bytes", "parse", "to_dict", "construct_only", "len", "dump_delimited"):
                yield {"order": order, "first_op": first_op}

    def ev(case):
        Base, Child, Grand, Plain = fresh_classes()
        first = {"base_first": Base, "child_first": Child, "grand_first": Grand, "plain_first": Plain}[case["order"]]
        fails = []

        def bad(cl, d):
            fails.append(Failure(cl, f"inherit|{cl}|{case['order']}", f"case={case!r}: {d}"))

        try:
            # whatever is used first may build class-level tables
            if case["first_op"] == "bytes":
                guard("first_bytes", bytes, first(i=1))
            elif case["first_op"] == "parse":
                guard("first_parse", first().parse, b"\x08\x01")
            elif case["first_op"] == "to_dict":
                guard("first_to_dict", first(i=1).to_dict)
            elif case["first_op"] == "len":
                guard("first_len", len, first(i=1))
            elif case["first_op"] == "dump_delimited":
                from io import BytesIO

                guard("first_dump", first(i=1).dump, BytesIO(), betterproto.SIZE_DELIMITED)
            else:
                guard("first_construct", first)
            objs = [
                (Base, Base(i=-3, s="b"), "Leaf", {"i": -3, "s": "b"}),
                (Child, Child(i=5, s="x", extra=[1, -2], inner=Leaf(i=7)), "LeafPlus", {"i": 5, "s": "x", "extra": [1, -2], "inner": {"i": 7}}),
                (Grand, Grand(i=6, extra=[9], tail="t"), "LeafPlus", {"i": 6, "extra": [9], "tail": "t"}),
                (Plain, Plain(i=8, s="p"), "Leaf", {"i": 8, "s": "p"}),
            ]
            from google.protobuf import json_format

            if case["order"] in ("child_first", "grand_first"):
                # the base class is measured before the classes derived from it are
                for cls, m, refname, want in objs[:1] + objs[3:] + objs[1:3]:
                    if guard("len_early", len, m) != len(guard("bytes_early", bytes, m)):
                        bad("subclass_len", f"{cls.__name__}: len {len(m)} bytes {len(bytes(m))}")
            for cls, m, refname, want in objs:
                b = guard("bytes", bytes, m)
                r = c.rf(refname).FromString(b)
                got = json_format.MessageToDict(r, preserving_proto_field_name=True)
                if got != want:
                    bad("subclass_encoding", f"{cls.__name__}: reference ({refname}) reads {got!r}, want {want!r}; bytes={b.hex()}")
                if guard("len", len, m) != len(b):
                    bad("subclass_len", f"{cls.__name__}: len {len(m)} bytes {len(b)}")
                ref_bytes = json_format.ParseDict(want, c.rf(refname)()).SerializeToString(deterministic=True)
                m2 = guard("parse", cls().parse, ref_bytes)
                if type(m2) is not cls or (m2 == m) is not True or guard("bytes2", bytes, m2) != b:
                    bad("subclass_decoding", f"{cls.__name__}: parse of the reference's bytes gives {m2!r}, want {m!r}")
                d = guard("to_dict", m.to_dict, betterproto.Casing.SNAKE)
                if d != want:
                    bad("subclass_to_dict", f"{cls.__name__}: {d!r} want {want!r}")
                m3 = guard("from_dict", cls().from_dict, d)
                if (m3 == m) is not True:
                    bad("subclass_from_dict", f"{cls.__name__}: {m3!r} want {m!r}")
                import copy
                import pickle

                if (guard("deepcopy", copy.deepcopy, m) == m) is not True:
                    bad("subclass_deepcopy", cls.__name__)
            if Plain(i=1).hello() != "hi":
                bad("subclass_behaviour_lost", "PlainHand.hello")
        except Guarded as g:
            bad(f"raises_{g.where}_{type(g.exc).__name__}", str(g)[:300])
        return Eval(fails, nontrivial=True, labels=[f"inherit_order:{case['order']}", f"inherit_first_op:{case['first_op']}"])

    return Target("message_classes_defined_by_inheritance", ev, cases=cases, exhaustive=True, shard_cases=False,
                  rule="hand-written base class, subclass adding fields, subclass of that subclass, subclass adding only behaviour - each of them used first (bytes / parse / to_dict / constructor) in turn: encoding judged by the reference (ks.Leaf / ks.LeafPlus), decoding, dict forms, copies")
