"""Message classes defined by inheritance (hand-written code): a subclass that adds fields, a subclass of a subclass, a
subclass that adds nothing but behaviour - used in either order (the base class first or the subclass first). The
schema each class stands for is in protos/ks.proto (Leaf = the base, LeafPlus = base + added fields), so the reference
implementation judges the bytes."""
from __future__ import annotations

import dataclasses
from typing import List

from ..engine import Eval, Failure, Guarded, Target, guard


def target(c):
    import betterproto

    Leaf = c.bp("Leaf")

    def fresh_classes():
        Base = dataclasses.make_dataclass("BaseHand", [("i", int, betterproto.int32_field(1)), ("s", str, betterproto.string_field(2))],
                                          bases=(betterproto.Message,), eq=False, repr=False)
        Child = dataclasses.make_dataclass("ChildHand", [("extra", List[int], betterproto.int32_field(3)), ("inner", Leaf, betterproto.message_field(4))],
                                           bases=(Base,), eq=False, repr=False)
        # (the names of the fields Grand adds do not survive camelCase -> snake_case: their JSON keys need Grand's own key table)
        Grand = dataclasses.make_dataclass("GrandHand", [("tail", str, betterproto.string_field(5)), ("x_y_z", int, betterproto.int32_field(6)), ("address_line_2", str, betterproto.string_field(7))],
                                           bases=(Child,), eq=False, repr=False)
        Plain = type("PlainHand", (Base,), {"hello": lambda self: "hi"})
        # a subclass that re-declares BOTH inherited fields - same names, same numbers - as members of one oneof group
        Regroup = dataclasses.make_dataclass("RegroupHand", [("i", int, betterproto.int32_field(1, group="g")), ("s", str, betterproto.string_field(2, group="g"))],
                                             bases=(Base,), eq=False, repr=False)
        return Base, Child, Grand, Plain, Regroup

    ORDERS = ["base_first", "child_first", "grand_first", "plain_first", "regroup_first"]

    def cases():
        for order in ORDERS:
            for first_op in ("bytes", "parse", "to_dict", "construct_only", "len", "dump_delimited", "from_dict", "from_json", "which_one_of"):
                yield {"order": order, "first_op": first_op}

    def ev(case):
        Base, Child, Grand, Plain, Regroup = fresh_classes()
        first = {"base_first": Base, "child_first": Child, "grand_first": Grand, "plain_first": Plain, "regroup_first": Regroup}[case["order"]]
        fails = []

        def bad(cl, d):
            fails.append(Failure(cl, f"inherit|{cl}|{case['order']}", f"case={case!r}: {d}"))

        try:
            # whatever is used first may build class-level tables
            if case["first_op"] == "bytes":
                guard("first_bytes", bytes, first(i=1))
            elif case["first_op"] == "parse":
                guard("first_parse", first().parse, b"\x08\x01")
            elif case["first_op"] == "to_dict":
                guard("first_to_dict", first(i=1).to_dict)
            elif case["first_op"] == "len":
                guard("first_len", len, first(i=1))
            elif case["first_op"] == "dump_delimited":
                from io import BytesIO

                guard("first_dump", first(i=1).dump, BytesIO(), betterproto.SIZE_DELIMITED)
            elif case["first_op"] == "from_dict":
                guard("first_from_dict", first().from_dict, {"i": 1})
            elif case["first_op"] == "from_json":
                guard("first_from_json", first().from_json, '{"s": "j"}')
            elif case["first_op"] == "which_one_of":
                guard("first_which_one_of", betterproto.which_one_of, first(i=1), "g") if first is Regroup else guard("first_is_set", first(i=1).is_set, "i")
            else:
                guard("first_construct", first)
            # the re-grouped subclass: one member at a time, whatever was used first (judged by ks.LeafPick)
            for how in ("ctor_then_assign", "parse_both", "from_dict"):
                if how == "ctor_then_assign":
                    rg = guard("regroup_ctor", Regroup, i=5)
                    guard("regroup_assign", setattr, rg, "s", "x")
                elif how == "parse_both":
                    rg = guard("regroup_parse", Regroup().parse, b"\x08\x05\x12\x01x")
                else:
                    rg = guard("regroup_from_dict", Regroup().from_dict, {"i": 5})
                    guard("regroup_assign2", setattr, rg, "s", "x")
                sel = guard("regroup_which", betterproto.which_one_of, rg, "g")
                if sel != ("s", "x"):
                    bad("regrouped_subclass_selection", f"{how}: which_one_of -> {sel!r}, want ('s', 'x')")
                try:
                    rg.i
                    bad("regrouped_subclass_other_member_readable", f"{how}: i is readable while s is selected")
                except AttributeError:
                    pass
                rb = guard("regroup_bytes", bytes, rg)
                try:
                    seen_by_ref = c.rf("LeafPick").FromString(rb).WhichOneof("g")
                except Exception as e:  # noqa: BLE001 - not a message at all
                    seen_by_ref = f"<rejected: {e}>"
                if rb != b"\x12\x01x" or seen_by_ref != "s":
                    bad("regrouped_subclass_encoding", f"{how}: bytes {rb.hex()}, the reference sees {seen_by_ref!r}")
                if guard("regroup_to_dict", rg.to_dict) != {"s": "x"}:
                    bad("regrouped_subclass_to_dict", f"{how}: {rg.to_dict()!r}")
            objs = [
                (Base, Base(i=-3, s="b"), "Leaf", {"i": -3, "s": "b"}),
                (Child, Child(i=5, s="x", extra=[1, -2], inner=Leaf(i=7)), "LeafPlus", {"i": 5, "s": "x", "extra": [1, -2], "inner": {"i": 7}}),
                (Grand, Grand(i=6, extra=[9], tail="t", x_y_z=4, address_line_2="a2"), "LeafPlus", {"i": 6, "extra": [9], "tail": "t", "x_y_z": 4, "address_line_2": "a2"}),
                (Plain, Plain(i=8, s="p"), "Leaf", {"i": 8, "s": "p"}),
            ]
            from google.protobuf import json_format

            if case["order"] in ("child_first", "grand_first"):
                # the base class is measured before the classes derived from it are
                for cls, m, refname, want in objs[:1] + objs[3:] + objs[1:3]:
                    if guard("len_early", len, m) != len(guard("bytes_early", bytes, m)):
                        bad("subclass_len", f"{cls.__name__}: len {len(m)} bytes {len(bytes(m))}")
            for cls, m, refname, want in objs:
                b = guard("bytes", bytes, m)
                try:
                    got = json_format.MessageToDict(c.rf(refname).FromString(b), preserving_proto_field_name=True)
                except Exception as e:  # noqa: BLE001 - not a message at all
                    got = f"<rejected: {e}>"
                if got != want:
                    bad("subclass_encoding", f"{cls.__name__}: reference ({refname}) reads {got!r}, want {want!r}; bytes={b.hex()}")
                if guard("len", len, m) != len(b):
                    bad("subclass_len", f"{cls.__name__}: len {len(m)} bytes {len(b)}")
                ref_bytes = json_format.ParseDict(want, c.rf(refname)()).SerializeToString(deterministic=True)
                m2 = guard("parse", cls().parse, ref_bytes)
                if type(m2) is not cls or (m2 == m) is not True or guard("bytes2", bytes, m2) != b:
                    bad("subclass_decoding", f"{cls.__name__}: parse of the reference's bytes gives {m2!r}, want {m!r}")
                d = guard("to_dict", m.to_dict, betterproto.Casing.SNAKE)
                if d != want:
                    bad("subclass_to_dict", f"{cls.__name__}: {d!r} want {want!r}")
                m3 = guard("from_dict", cls().from_dict, d)
                if (m3 == m) is not True:
                    bad("subclass_from_dict", f"{cls.__name__}: {m3!r} want {m!r}")
                # the default (camelCase) keys, as a dict and as JSON text, through both forms of from_dict
                dc = guard("to_dict_camel", m.to_dict)
                for form, fn in (("instance", cls().from_dict), ("class", cls.from_dict)):
                    m4 = guard("from_dict_camel", fn, dc)
                    if (m4 == m) is not True:
                        bad("subclass_from_dict_camel", f"{cls.__name__} ({form}): {dc!r} -> {m4!r} want {m!r}")
                m5 = guard("from_json", cls().from_json, guard("to_json", m.to_json))
                if (m5 == m) is not True:
                    bad("subclass_from_json", f"{cls.__name__}: {m5!r} want {m!r}")
                import copy
                import pickle

                if (guard("deepcopy", copy.deepcopy, m) == m) is not True:
                    bad("subclass_deepcopy", cls.__name__)
            if Plain(i=1).hello() != "hi":
                bad("subclass_behaviour_lost", "PlainHand.hello")
        except Guarded as g:
            bad(f"raises_{g.where}_{type(g.exc).__name__}", str(g)[:300])
        return Eval(fails, nontrivial=True, labels=[f"inherit_order:{case['order']}", f"inherit_first_op:{case['first_op']}"])

    return Target("message_classes_defined_by_inheritance", ev, cases=cases, exhaustive=True, shard_cases=False,
                  rule="hand-written base class, subclass adding fields, subclass of that subclass, subclass adding only behaviour - each of them used first (bytes / parse / to_dict / constructor) in turn: encoding judged by the reference (ks.Leaf / ks.LeafPlus), decoding, dict forms, copies")
