"""Operations that FAIL, performed before a case is evaluated ("poison"): an implementation may leave state behind when
an exception interrupts it half-way (a scratch buffer that is only emptied on success, a depth counter that is only
restored on success, a shared decoder instance that keeps the fields of the value it choked on). None of the listed
properties may depend on what failed earlier in the process, so a case drawn with poison=True must be judged exactly
like the same case without it. Every operation here is expected to raise (or not - nobody looks at the outcome)."""
from __future__ import annotations

from datetime import datetime, timedelta, timezone

from .. import wire

_BAD = {}


def _payloads():
    if _BAD:
        return _BAD
    # Timestamp beyond year 9999 / Duration beyond timedelta's range, each with non-zero nanos
    ts = wire.tag(1, 0) + wire.enc_varint(253402300800 + 86400 * 400) + wire.tag(2, 0) + wire.enc_varint(987654000)
    du = wire.tag(1, 0) + wire.enc_varint(10**14) + wire.tag(2, 0) + wire.enc_varint(123456000)
    _BAD["times_ts"] = wire.tag(1, 2) + wire.enc_varint(len(ts)) + ts  # Times.ts = 1
    _BAD["times_dur"] = wire.tag(2, 2) + wire.enc_varint(len(du)) + du  # Times.dur = 2
    # Rec nested 40 levels (field 1 = rec), innermost: leaf (5) { s (2) = invalid UTF-8 }
    inner = wire.tag(5, 2) + wire.enc_varint(4) + wire.tag(2, 2) + wire.enc_varint(2) + b"\xff\xfe"
    for _ in range(40):
        inner = wire.tag(1, 2) + wire.enc_varint(len(inner)) + inner
    _BAD["rec_deep_bad_utf8"] = inner
    # a packed list cut inside its last element, nested one level (Mixed.repeats = 3, Repeats.r_int64 = 4)
    packed = wire.tag(4, 2) + wire.enc_varint(3) + b"\x01\x80\x80"
    _BAD["mixed_inner_trunc"] = wire.tag(3, 2) + wire.enc_varint(len(packed)) + packed
    return _BAD


def apply(c, rounds: int = 1):
    """c: the compiled corpus (vf.build.Corpus)."""
    bad = _payloads()
    Repeats, Scalars, Times, Rec, Mixed, Maps = (c.bp(n) for n in ("Repeats", "Scalars", "Times", "Rec", "Mixed", "Maps"))
    far = datetime(9999, 12, 31, 23, 59, 59, 999999, tzinfo=timezone(timedelta(hours=-14)))  # UTC instant beyond year 9999
    attempts = (
        lambda: bytes(Repeats(r_fixed32=[1, 2, 2**40, 3], r_int32=[5])),
        lambda: len(Repeats(r_sfixed64=[7, 2**70])),
        lambda: bytes(Repeats(r_double=[1.5, "x"])),
        lambda: bytes(Repeats(r_int32=[1, 2, None, 4])),
        lambda: bytes(Scalars(f_int64=2**70, f_string="ok")),
        lambda: bytes(Maps(m_int32_int32={1: 2, 3: 2**70})),
        lambda: bytes(Times(ts=far)),
        lambda: Times(dur=timedelta(days=10**8)).to_dict(),
        lambda: Times().parse(bad["times_ts"]),
        lambda: Times().parse(bad["times_dur"]),
        lambda: Times().from_dict({"ts": "not a time", "dur": "1.5"}),
        lambda: Mixed().parse(bad["mixed_inner_trunc"]),
        lambda: Scalars().from_json('{"fInt32": '),
    )
    for _ in range(rounds):
        for a in attempts:
            try:
                a()
            except Exception:  # noqa: BLE001 - expected
                pass
        for _ in range(3):  # 3 x 40 levels
            try:
                Rec().parse(bad["rec_deep_bad_utf8"])
            except Exception:  # noqa: BLE001
                pass
