"""C16 Scalar codec primitives are total, canonical and mutually inverse."""
from __future__ import annotations

import itertools
import math
import struct
from io import BytesIO

from hypothesis import strategies as st

from .. import wire
from ..engine import Eval, Failure, Target, guard, Guarded
from ..schema_info import INT_RANGES, Schema
from ..values import BPAdapter, TreeStrategies, scalar_strategy, to_ref
from ._corpus import corpus

LEVEL = "exploration"
QUICK_SHARDS = 8
RULE = (
    "integers: exhaustive ranges (batch cases [lo,hi), each member evaluated) + windows of +-64 around every 7k-bit, "
    "32-bit and 64-bit boundary + Hypothesis integers over [-2**63, 2**64) and just outside; decoder inputs: every "
    "byte string of length <=2, every continuation-bit pattern of length <=11 with generated payload bits, Hypothesis "
    "binary(max_size=12); scalar kinds: every one of the 15 kinds + enum in singular / optional / packed-repeated "
    "position vs. the reference encoder and the spec codec. Non-trivial = integer needing >=2 bytes or negative; "
    "decoder input that is not the canonical encoding of its value; scalar case with a non-default value."
)
ASSUMPTIONS = [
    "vf/wire.py (spec codec) and google.protobuf internal encoder/decoder are the oracles",
    "values >= 2**64 are outside the stated domain and only checked not to be silently mis-sized",
]

MASK64 = (1 << 64) - 1


def _ref_varint(x: int) -> bytes:
    from google.protobuf.internal import encoder

    return encoder._VarintBytes(x & MASK64)


class _KeepingSink:
    def __init__(self):
        self.chunks = []

    def write(self, b):
        self.chunks.append(b)
        return len(b)


def check_int(bp, x: int):
    """Failures for one integer in [-2**63, 2**64). Returns list[(clause, detail)]."""
    out = []
    spec = wire.enc_varint(x)
    want_v = x & MASK64
    try:
        enc = bp.encode_varint(x)
        if enc != spec:
            out.append(("encode_varint", f"x={x} got={enc.hex()} want={spec.hex()}"))
        sz = bp.size_varint(x)
        if sz != len(spec):
            out.append(("size_varint", f"x={x} got={sz} want={len(spec)}"))
        v, pos = bp.decode_varint(spec, 0)
        if (v, pos) != (want_v, len(spec)):
            out.append(("decode_varint", f"x={x} got={(v, pos)} want={(want_v, len(spec))}"))
        v, pos = bp.decode_varint(b"\xff\x01" + spec + b"\x85", 2)
        if (v, pos) != (want_v, 2 + len(spec)):
            out.append(("decode_varint_offset", f"x={x} got={(v, pos)}"))
        s = BytesIO(spec + b"\x99")
        v, raw = bp.load_varint(s)
        if v != want_v or raw != spec or s.tell() != len(spec):
            out.append(("load_varint", f"x={x} got={(v, raw.hex(), s.tell())}"))
        s = BytesIO()
        bp.dump_varint(x, s)
        if s.getvalue() != spec:
            out.append(("dump_varint", f"x={x} got={s.getvalue().hex()} want={spec.hex()}"))
        # a sink that KEEPS what it is handed (a list of chunks, a transport's write queue) instead of copying it:
        # what was written for one value must not change when the next value is written
        keep = _KeepingSink()
        bp.dump_varint(x, keep)
        bp.dump_varint(300, keep)
        bp.dump_varint(x, keep)
        got = b"".join(bytes(ch) for ch in keep.chunks)
        if got != spec + b"\xac\x02" + spec:
            out.append(("dump_varint_chunks_change_later", f"x={x} got={got.hex()} want={(spec + bytes([0xac, 2]) + spec).hex()}"))
    except Exception as e:  # noqa: BLE001
        out.append((f"raises_{type(e).__name__}", f"x={x}: {e}"))
    return out


def _bucket(x: int) -> str:
    if x < 0:
        return "neg"
    return f"len{max(1, math.ceil(x.bit_length() / 7))}"


def eval_range(bp):
    def ev(case):
        lo, hi = case["lo"], case["hi"]
        fails = []
        seen = set()
        nt = 0
        for x in range(lo, hi):
            if x < 0 or x >= 128:
                nt += 1
            for clause, detail in check_int(bp, x):
                sig = f"{clause}|{_bucket(x)}"
                if sig not in seen:
                    seen.add(sig)
                    fails.append(Failure(clause, sig, detail, case={"lo": x, "hi": x + 1}))
        r = wire.enc_varint(lo)
        if r != _ref_varint(lo):  # keep the two oracles honest against each other
            raise RuntimeError("spec codec and reference encoder disagree")
        return Eval(fails, weight=hi - lo, nontrivial_count=nt, labels=[f"range:{_bucket(lo)}"])

    return ev


def eval_vals(bp):
    def ev(case):
        fails, seen, nt = [], set(), 0
        for x in case["vals"]:
            if x < -(1 << 63):
                for name in ("encode_varint", "size_varint"):
                    try:
                        getattr(bp, name)(x)
                        fails.append(Failure(f"{name}_accepts_below_min", f"{name}_accepts_below_min", f"x={x}", case={"vals": [x]}))
                    except ValueError:
                        pass
                    except Exception as e:  # noqa: BLE001
                        fails.append(Failure(f"{name}_below_min_raises_{type(e).__name__}", f"{name}_below_min_raises_{type(e).__name__}", f"x={x}: {e}", case={"vals": [x]}))
                try:
                    bp.dump_varint(x, BytesIO())
                    fails.append(Failure("dump_varint_accepts_below_min", "dump_varint_accepts_below_min", f"x={x}", case={"vals": [x]}))
                except ValueError:
                    pass
                nt += 1
                continue
            if x > MASK64:
                continue
            if x < 0 or x >= 128:
                nt += 1
            if wire.enc_varint(x) != _ref_varint(x):
                raise RuntimeError("spec codec and reference encoder disagree")
            for clause, detail in check_int(bp, x):
                sig = f"{clause}|{_bucket(x)}"
                if sig not in seen:
                    seen.add(sig)
                    fails.append(Failure(clause, sig, detail, case={"vals": [x]}))
        return Eval(fails, weight=len(case["vals"]), nontrivial_count=nt, labels=["vals"])

    return ev


_REUSED = bytearray()


def check_decode(bp, b: bytes):
    """Decoder contract on arbitrary bytes. Returns (failures[(clause, detail)], class label)."""
    out = []
    try:
        want = wire.dec_varint(b, 0)
        kind = "ok"
    except wire.Truncated:
        want, kind = None, "eof"
    except wire.WireError:
        want, kind = None, "toolong"
    for fn in ("decode_varint", "decode_varint_reused_buffer", "load_varint"):
        try:
            if fn == "decode_varint":
                v, pos = bp.decode_varint(b, 0)
                raw = b[:pos]
            elif fn == "decode_varint_reused_buffer":
                # one mutable buffer refilled in place for every input (what a receive loop does): same contract
                _REUSED[:] = b"\xac\x02" if b[:2] != b"\xac\x02" else b"\x05"
                try:
                    bp.decode_varint(_REUSED, 0)  # the previous content of the very same buffer object
                except Exception:  # noqa: BLE001
                    pass
                _REUSED[:] = b
                v, pos = bp.decode_varint(_REUSED, 0)
                raw = bytes(_REUSED[:pos])
            else:
                s = BytesIO(b)
                v, raw = bp.load_varint(s)
                pos = s.tell()
            got = ("ok", v, pos, raw)
        except EOFError:
            got = ("eof",)
        except ValueError:
            got = ("toolong",)
        except Exception as e:  # noqa: BLE001
            got = ("exc", type(e).__name__, str(e))
        if kind == "ok":
            if got[0] != "ok":
                out.append((f"{fn}_rejects_valid", f"b={b.hex()} got={got}"))
            else:
                if got[2] != want[1] or got[3] != b[: want[1]]:
                    out.append((f"{fn}_consumed", f"b={b.hex()} got pos={got[2]} want={want[1]}"))
                if got[1] & MASK64 != want[0]:
                    out.append((f"{fn}_value", f"b={b.hex()} got={got[1]} want={want[0]}"))
        elif kind == "eof":
            if got[0] != "eof":
                out.append((f"{fn}_eof_not_signalled", f"b={b.hex()} got={got[:3]}"))
        else:
            if got[0] != "toolong":
                out.append((f"{fn}_accepts_overlong", f"b={b.hex()} got={got[:3]}"))
    canonical = kind == "ok" and want[1] == len(b) and wire.enc_varint(want[0]) == b
    return out, kind, canonical


def eval_bytes_batch(bp):
    def ev(case):
        fails, seen, nt = [], set(), 0
        items = case.get("items")
        if items is None:
            n = case["len"]
            items = (bytes(t) for t in itertools.product(range(256), repeat=n)) if n else [b""]
            if "first" in case:
                items = (bytes((case["first"],) + t) for t in itertools.product(range(256), repeat=n - 1))
        w = 0
        for b in items:
            w += 1
            fl, kind, canonical = check_decode(bp, b)
            if not canonical:
                nt += 1
            for clause, detail in fl:
                sig = f"{clause}|{kind}|n{min(len(b), 11)}"
                if sig not in seen:
                    seen.add(sig)
                    fails.append(Failure(clause, sig, detail, case={"items": [b]}))
        return Eval(fails, weight=w, nontrivial_count=nt, labels=["decode_batch"])

    return ev


def eval_bytes_one(bp):
    def ev(case):
        b = case["b"]
        fl, kind, canonical = check_decode(bp, b)
        fails = [Failure(c, f"{c}|{kind}|n{min(len(b), 11)}", d) for c, d in fl]
        return Eval(fails, nontrivial=not canonical, labels=[f"decode:{kind}", f"declen:{min(len(b), 12)}"])

    return ev


def _cont_patterns():
    """All continuation-bit patterns of length 1..11, payload bits generated by the strategy."""
    for n in range(1, 12):
        for bits in range(1 << n):
            yield n, bits


@st.composite
def cont_case(draw):
    n = draw(st.integers(1, 11))
    cont = draw(st.integers(0, (1 << n) - 1))
    payload = draw(st.lists(st.integers(0, 127), min_size=n, max_size=n))
    b = bytes(((0x80 if (cont >> i) & 1 else 0) | payload[i]) for i in range(n))
    return {"b": b}


def eval_cont_exhaustive(bp):
    def ev(case):
        # every continuation pattern of this length, with 3 payload fillings each (0x00, 0x7f, alternating)
        n = case["n"]
        items = []
        for bits in range(1 << n):
            for fill in (0x00, 0x7F, 0x2A):
                items.append(bytes(((0x80 if (bits >> i) & 1 else 0) | (fill if i % 2 == 0 or fill != 0x2A else 0x55)) for i in range(n)))
        return eval_bytes_batch(bp)({"items": items})

    return ev


SCALAR_FIELDS = [
    ("double", "f_double", "o_double", "r_double"),
    ("float", "f_float", "o_float", "r_float"),
    ("int32", "f_int32", "o_int32", "r_int32"),
    ("int64", "f_int64", "o_int64", "r_int64"),
    ("uint32", "f_uint32", "o_uint32", "r_uint32"),
    ("uint64", "f_uint64", "o_uint64", "r_uint64"),
    ("sint32", "f_sint32", "o_sint32", "r_sint32"),
    ("sint64", "f_sint64", "o_sint64", "r_sint64"),
    ("fixed32", "f_fixed32", "o_fixed32", "r_fixed32"),
    ("fixed64", "f_fixed64", "o_fixed64", "r_fixed64"),
    ("sfixed32", "f_sfixed32", "o_sfixed32", "r_sfixed32"),
    ("sfixed64", "f_sfixed64", "o_sfixed64", "r_sfixed64"),
    ("bool", "f_bool", "o_bool", "r_bool"),
    ("string", "f_string", "o_string", "r_string"),
    ("bytes", "f_bytes", "o_bytes", "r_bytes"),
    ("enum", "f_color", "o_color", "r_color"),
]


def scalar_targets(ctx):
    c = corpus()
    schema = c.schema
    adapter = BPAdapter(schema)

    maps_mi = schema.msg("ks.Maps")
    MAP_FIELDS = [f for f in maps_mi.fields if f.card == "map" and f.val.type != "message"]

    @st.composite
    def strat(draw):
        if draw(st.integers(0, 4)) == 0:
            # one map entry: every key kind, the scalar value kinds the corpus has - encode AND decode (the entry codec
            # is chosen per field; the Python types of two map fields can be the same while their wire forms differ)
            f = draw(st.sampled_from(MAP_FIELDS))
            k = draw(scalar_strategy(schema, f.key.type))
            v = draw(scalar_strategy(schema, f.val.type, f.val.enum))
            return {"type": f"{f.key.type}->{f.val.type}", "pos": "map", "field": f.name, "value": [[k, v]]}
        t, fs, fo, fr = draw(st.sampled_from(SCALAR_FIELDS))
        pos = draw(st.sampled_from(["single", "optional", "repeated", "repeated"]))
        el = scalar_strategy(schema, t, "ks.Color" if t == "enum" else None)
        if pos == "repeated":
            # element counts around the thresholds where bulk paths / buffer sizes could switch
            n = draw(st.sampled_from([1, 2, 3, 4, 4, 4, 15, 16, 17, 63, 64, 65, 127, 128, 129, 200, 255, 256, 600]))
            if n <= 4:
                v = draw(st.lists(el, min_size=n, max_size=n))
            else:
                few = draw(st.lists(el, min_size=3, max_size=3))
                v = [few[i % 3] for i in range(n)]
        else:
            v = draw(el)
        return {"type": t, "pos": pos, "value": v}

    names = {"single": ("Scalars", 1), "optional": ("Optionals", 2), "repeated": ("Repeats", 3)}

    def ev(case):
        t, pos, v = case["type"], case["pos"], case["value"]
        if pos == "map":
            msg_name, fname = "Maps", case["field"]
        else:
            msg_name, idx = names[pos]
            fname = next(r for r in SCALAR_FIELDS if r[0] == t)[idx]
        tree = {fname: v}
        mi = schema.msg(f"ks.{msg_name}")
        fails = []
        ref_bytes = to_ref(schema, c.ref, f"ks.{msg_name}", tree).SerializeToString(deterministic=True)
        spec_bytes = wire.encode_tree(schema, mi, tree)
        from ..values import value_class

        fi = mi.by_name(fname)
        if pos == "map":
            vc = "+".join(sorted({value_class(fi.key, v[0][0]), value_class(fi.val, v[0][1])}))
        else:
            vc = "+".join(sorted({value_class(fi, x) for x in (v if pos == "repeated" else [v])}))
        if pos == "repeated" and len(v) > 4:
            vc += f"|n={len(v)}"
        if spec_bytes != ref_bytes:
            # -0.0 in implicit-presence position: reference emits it; the spec encoder above drops it. Not asserted.
            return Eval(discard="oracles_disagree(-0.0)")
        try:
            m = guard("build", adapter.build, c.bp(msg_name), mi, tree)
            got = guard("bytes", bytes, m)
            if pos == "map":
                # (the framing of a map entry is not one of the scalar encodings: an entry may omit a default key /
                # value; what is claimed is that the reference reads betterproto's entry as the same pair)
                from ..values import norm as _norm, snap_ref

                try:
                    seen_by_ref = _norm(schema, mi, snap_ref(schema, mi, c.rf(msg_name).FromString(got)))
                except Exception as e:  # noqa: BLE001
                    seen_by_ref = f"reference rejects: {e}"
                if seen_by_ref != _norm(schema, mi, tree):
                    fails.append(Failure("scalar_bytes_vs_reference", f"scalar_bytes|{t}|{pos}|{vc}", f"tree={tree!r:.300} got={got.hex()[:200]} reference reads {seen_by_ref!r:.200}"))
            elif got != ref_bytes:
                fails.append(Failure("scalar_bytes_vs_reference", f"scalar_bytes|{t}|{pos}|{vc}", f"tree={tree!r:.300} got={got.hex()[:200]} want={ref_bytes.hex()[:200]}"))
            back = guard("parse", c.bp(msg_name)().parse, ref_bytes)
            got2 = guard("bytes2", bytes, back)
            if got2 != (got if pos == "map" else ref_bytes):
                fails.append(Failure("scalar_decode_reencode", f"scalar_reencode|{t}|{pos}|{vc}", f"tree={tree!r:.300} got={got2.hex()[:200]} want={ref_bytes.hex()[:200]}"))
            from ..values import norm, snap_bp

            val = norm(schema, mi, guard("snapshot", snap_bp, schema, mi, back))
            if val != norm(schema, mi, tree):
                fails.append(Failure("scalar_decoded_value", f"scalar_decoded_value|{t}|{pos}|{vc}", f"tree={tree!r:.300} decoded={val!r:.300}"))
        except Guarded as g:
            fails.append(Failure(f"raises_{g.where}", f"scalar_raises|{g.where}|{type(g.exc).__name__}|{t}|{pos}|{vc}", str(g)))
        return Eval(fails, nontrivial=len(ref_bytes) > 0, labels=[f"scalar:{t}:{pos}", f"vc:{vc}"])

    return Target("scalar_kinds_vs_reference", ev, strategy=strat(), quick=3000, thorough=30000,
                  rule="single-field message per scalar kind (singular, optional, repeated with 1..1000 elements, one map entry per key / value kind), byte-for-byte vs reference and spec, and decoded back to the value")


def _boundary_windows():
    vals = set()
    for k in list(range(7, 71, 7)) + [31, 32, 33, 62, 63, 64]:
        for d in range(-64, 65):
            for base in ((1 << k), -(1 << k)):
                vals.add(base + d)
    return sorted(vals)


def targets(ctx):
    import betterproto as bp

    chunk = 1 << 12
    if ctx.thorough:
        lo, hi = -(1 << 21), 1 << 21
    else:
        lo, hi = -(1 << 16), 1 << 21

    def range_cases():
        for a in range(lo, hi, chunk):
            yield {"lo": a, "hi": min(a + chunk, hi)}

    def window_cases():
        w = _boundary_windows()
        for i in range(0, len(w), 256):
            yield {"vals": w[i : i + 256]}

    def small_bytes_cases():
        yield {"len": 0}
        yield {"len": 1}
        for first in range(256):
            yield {"len": 2, "first": first}

    def cont_cases():
        for n in range(1, 12):
            yield {"n": n}

    rand_ints = st.one_of(
        st.integers(-(1 << 63), MASK64),
        st.integers(-(1 << 63) - 1000, -(1 << 63) + 1000),
        st.integers(MASK64 - 1000, MASK64),
        st.integers(-(1 << 70), -(1 << 63) - 1),
    )
    def fuzz_cases():
        if not ctx.thorough or ctx.shard not in (0, 1):
            return
        from .. import fuzz

        if not fuzz.available():
            ctx.extra["atheris"] = "not installed: campaign skipped (inconclusive)"
            return
        yield {"fuzz": "varint", "runs": 1000000, "seed": ctx.seed * 100 + ctx.shard}

    def fuzz_ev(case):
        from .. import fuzz

        if "crash" in case:
            return eval_bytes_one(bp)({"b": case["crash"][:12]})
        execs, crashes, log = fuzz.run_campaign("fuzz_varint.py", case["runs"], case["seed"], [b"\x80\x01", b"\xff" * 10 + b"\x01"], tag=f"varint_{ctx.shard}", max_len=16)
        fails = []
        for data in crashes[:5]:
            sub = eval_bytes_one(bp)({"b": data[:12]})
            for f in sub.failures:
                f.case = {"crash": data}
                fails.append(f)
            if not sub.failures:
                fails.append(Failure("fuzz_target_oracle", "fuzz|target_oracle_violation", f"input={data.hex()} log={log[-300:]}", case={"crash": data}))
        ctx.extra.setdefault("fuzz_campaigns", {})[f"varint[{ctx.shard}]"] = {"executions": execs, "crashes": len(crashes)}
        return Eval(fails, weight=max(1, execs), nontrivial_count=execs, labels=["fuzz:varint"])

    # ---- load_varint / dump_varint over stream KINDS: a varint that straddles the boundary of a buffered reader's
    # internal buffer, a stream that hands out one byte per read(), a stream that only offers read()
    def stream_ev(case):
        import io

        vals, bs, kind = case["vals"], case["bs"], case["kind"]
        data = b"".join(wire.enc_varint(v) for v in vals)
        fails = []

        class OneByte:
            def __init__(self, d):
                self.d, self.i = d, 0

            def read(self, n=-1):
                if self.i >= len(self.d):
                    return b""
                self.i += 1
                return self.d[self.i - 1:self.i]  # fewer bytes than asked for is allowed for raw streams; 1 is asked for

        class OnlyRead:
            def __init__(self, d):
                self._s = io.BytesIO(d)

            def read(self, n=-1):
                return self._s.read(n)

        s = {"buffered": lambda: io.BufferedReader(io.BytesIO(data), buffer_size=bs), "one_byte": lambda: OneByte(data),
             "only_read": lambda: OnlyRead(data), "bytesio": lambda: io.BytesIO(data)}[kind]()
        got = []
        try:
            for v in vals:
                x, raw = bp.load_varint(s)
                got.append((x, raw))
            want = [(v & MASK64, wire.enc_varint(v)) for v in vals]
            if got != want:
                bad = next(i for i, (a, b) in enumerate(zip(got, want)) if a != b)
                fails.append(Failure("load_varint_stream", f"load_varint_stream|{kind}", f"case={case!r:.300}: value {bad}: got {got[bad]!r} want {want[bad]!r}"))
        except Exception as e:  # noqa: BLE001
            fails.append(Failure("load_varint_stream_raises", f"load_varint_stream_raises|{kind}|{type(e).__name__}", f"case={case!r:.300}: after {len(got)} values: {e}"))
        straddles = False
        pos = 0
        for v in vals:
            ln = len(wire.enc_varint(v))
            if kind == "buffered" and pos // bs != (pos + ln - 1) // bs:
                straddles = True
            pos += ln
        return Eval(fails, weight=len(vals), nontrivial_count=len(vals) if (straddles or kind != "buffered") else 0, labels=[f"stream:{kind}"] + (["varint_straddles_buffer_boundary"] if straddles else []))

    stream_strat = st.fixed_dictionaries({
        "vals": st.lists(st.one_of(st.integers(0, 127), st.integers(0, 127), rand_ints.filter(lambda x: x >= -(2**63))), min_size=1, max_size=40),
        "bs": st.sampled_from([2, 3, 5, 8, 16]), "kind": st.sampled_from(["buffered", "buffered", "buffered", "one_byte", "only_read", "bytesio"])})

    from . import _seq

    return [
        Target("varint_stream_kinds", stream_ev, strategy=stream_strat, quick=500, thorough=8000),
        Target("atheris_varint_campaign", fuzz_ev, cases=fuzz_cases, exhaustive=False, shard_cases=False, quick=10**9, thorough=10**9, time_thorough=3000),
        Target("varint_exhaustive_range", eval_range(bp), cases=range_cases, exhaustive=True,
               rule=f"every integer in [{lo}, {hi})", time_quick=300, time_thorough=1200),
        Target("varint_boundary_windows", eval_vals(bp), cases=window_cases, exhaustive=True,
               rule="+-64 around +-2**k for k in 7,14,..,70,31..33,62..64 (values below -2**63 must raise ValueError)"),
        Target("varint_random", eval_vals(bp), strategy=st.lists(rand_ints, min_size=1, max_size=8).map(lambda v: {"vals": v}),
               quick=3000, thorough=20000),
        Target("decode_all_len_le_2", eval_bytes_batch(bp), cases=small_bytes_cases, exhaustive=True,
               rule="every byte string of length 0,1,2 as decoder input"),
        Target("decode_all_continuation_patterns", eval_cont_exhaustive(bp), cases=cont_cases, exhaustive=True,
               rule="every continuation-bit pattern of length 1..11 x 3 payload fillings"),
        Target("decode_continuation_random_payload", eval_bytes_one(bp), strategy=cont_case(), quick=3000, thorough=20000),
        Target("decode_random_bytes", eval_bytes_one(bp), strategy=st.binary(max_size=12).map(lambda b: {"b": b}),
               quick=3000, thorough=20000),
        scalar_targets(ctx),
        _seq.target("C16"),
        *__import__("vf.props._thr", fromlist=["target"]).target(ctx, ['varints_small', 'bytes:Words']),
    ]
