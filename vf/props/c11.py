"""C11 Generated gRPC stub and server base agree: calls reach the right handler intact."""
from __future__ import annotations

import asyncio
import random
import sys

from hypothesis import strategies as st

from .. import gen
from ..engine import Eval, Failure, Target
from ..sched import Deadlock, StepLimit, run_controlled
from ..schema import render, schema_ast
from ..schema_info import Schema
from ..values import BPAdapter
from .c18 import SERVICE_PROTO, simple_tree

LEVEL = "exploration"
QUICK_SHARDS = 8
THOROUGH_SHARDS = 16
RULE = (
    "Programs x inputs x configurations: Hypothesis grammar schemas with services (1-2 services x 1-4 methods, all "
    "four streaming cardinalities, method names needing re-casing or colliding with keywords, request / response types "
    "local / cross-package / google.protobuf.Empty / Timestamp / StringValue) + a fixed all-cardinality service; for "
    "each service a PRNG-drawn (seed from Hypothesis) subset of methods is overridden in a subclass of the generated "
    "<Svc>Base with recording handlers, some of them raising GRPCError; calls go through the generated <Svc>Stub over "
    "grpclib.testing.ChannelFor on the controlled event loop (FIFO schedule, virtual clock: a hang shows up as "
    "deadlock / virtual DEADLINE_EXCEEDED, never as a wall-clock timeout); server-streaming handlers are async "
    "generators or plain functions returning an async-iterable object; bidirectional calls are either batch (all "
    "requests, then all responses) or a ping-pong conversation (request k+1 is produced only after response k); request values and stream lengths 0..4 are "
    "PRNG-drawn; stub-level and call-level timeout / deadline / metadata are each None or set (all 2^3 x 2^3 "
    "combinations reachable). Oracle (echo-service model): exactly the same-named handler ran, once; received "
    "request(s) equal sent, in order; returned response(s) equal the handler's, in order; non-overridden -> "
    "GRPCError(UNIMPLEMENTED); a handler's GRPCError status and message reach the caller; the keyword arguments the "
    "stub passes to channel.request() (recording proxy) are the per-call value when given else the stub's (identity "
    "for deadline / metadata objects), and the server receives the effective metadata. Non-trivial = service with >=2 "
    "cardinalities, or a streaming call with length != 1, or a call with both stub- and call-level options set."
)
ASSUMPTIONS = ["gRPC is exercised over grpclib's in-process test channel, not sockets",
               "how grpclib itself combines a timeout with a deadline is not betterproto's contract and is not asserted"]

WK_SAMPLES = {}


def _wk_value(cls, rng):
    n = cls.__name__
    if n == "Empty":
        return cls()
    if n == "Timestamp":
        return cls(seconds=rng.choice([0, 1, 1_600_000_000]), nanos=rng.choice([0, 5]))
    if n == "StringValue":
        return cls(value=rng.choice(["", "x"]))
    if n == "Struct":
        return cls()
    return cls()


def exercise(c: gen.Compiled, seed: int, n_calls: int, pydantic: bool = False):
    """Run calls against every service of a compiled + imported schema. -> (failures [(clause, where, detail)], stats)"""
    import betterproto
    import grpclib
    from betterproto.grpc.grpclib_server import ServiceBase
    from grpclib.const import Status
    from grpclib.events import RecvRequest, listen
    from grpclib.metadata import Deadline
    from grpclib.testing import ChannelFor

    rng = random.Random(seed)
    schema = Schema(c.fds)
    adapter = BPAdapter(schema)
    fails = []
    stats = {"calls": 0, "nontrivial": 0, "cards": set(), "labels": set()}
    # marker -> full name for values
    full_by_cls = {}
    for pkg, mod in c.modules.items():
        msgs, _ = gen.classes_of(mod)
        for cls in msgs:
            mk = gen.marker_of_message(cls)
            if mk:
                for full, mi in schema.messages.items():
                    if any(fi.number == mk for fi in mi.fields):
                        full_by_cls[cls] = full

    def make_value(cls):
        if rng.random() < 0.2:
            return cls()  # a message holding nothing but defaults: an empty payload on the wire
        full = full_by_cls.get(cls)
        if full is None:
            if pydantic:
                # what a user of a pydantic package has at hand is the class its MESSAGE fields use for this type
                import importlib

                cls = getattr(importlib.import_module("betterproto.lib.pydantic.google.protobuf"), cls.__name__, cls)
            return _wk_value(cls, rng)
        return adapter.build(cls, schema.msg(full), simple_tree(schema, full, rng, depth=1))

    services = []
    for pkg, mod in c.modules.items():
        for name, obj in list(vars(mod).items()):
            if isinstance(obj, type) and obj.__module__ == mod.__name__ and issubclass(obj, ServiceBase) and obj is not ServiceBase:
                stub = getattr(mod, name[:-4] + "Stub", None)
                services.append((pkg, name[:-4], obj, stub))
    if not services:
        return [], stats

    async def scenario():
        for pkg, sname, Base, Stub in services:
            if Stub is None:
                fails.append(("stub_class_missing", "-", f"{sname}Stub in package {pkg!r}"))
                continue
            base_probe = Base()
            mapping = base_probe.__mapping__()
            methods = []  # (route, py_name, cardinality, req_type, rep_type)
            for route, h in mapping.items():
                py = h.func.__name__.split("__rpc_", 1)[1]
                methods.append((route, py, h.cardinality, h.request_type, h.reply_type))
            if not methods:
                continue
            stats["cards"].update(m[2].name for m in methods)
            overridden = {m[1] for m in methods if rng.random() < 0.7}
            erroring = {py for py in sorted(overridden) if rng.random() < 0.2}
            log = []  # (py_name, received)
            plan = {}  # py_name -> responses to give for the current call
            mode = {}  # py_name -> "batch" (read all requests, then answer) | "interleaved" (answer each request at once)
            style = {m[1]: rng.choice(["generator", "generator", "aiter_object"]) for m in methods}

            class Pager:
                """An async-iterable object that is not an async generator (what a handler may legitimately return)."""

                def __init__(self, agen):
                    self._agen = agen

                def __aiter__(self):
                    return self

                async def __anext__(self):
                    return await self._agen.__anext__()

            def make_handler(py, card):
                cs, ss = card.client_streaming, card.server_streaming

                if ss:
                    async def gen_handler(self, request):
                        if cs and mode.get(py) == "interleaved":
                            got = []
                            log.append((py, got))
                            i = 0
                            async for r in request:
                                got.append(r)
                                yield plan[py][i]
                                i += 1
                            return
                        got = [r async for r in request] if cs else request
                        log.append((py, got))
                        if py in erroring:
                            raise grpclib.GRPCError(Status.FAILED_PRECONDITION, f"boom-{py}")
                        for r in plan[py]:
                            yield r

                    if style[py] == "aiter_object":
                        def handler(self, request):  # plain function returning an async-iterable object
                            return Pager(gen_handler(self, request))
                    else:
                        handler = gen_handler
                else:
                    async def handler(self, request):
                        got = [r async for r in request] if cs else request
                        log.append((py, got))
                        if py in erroring:
                            raise grpclib.GRPCError(Status.FAILED_PRECONDITION, f"boom-{py}")
                        return plan[py][0]

                handler.__name__ = py
                return handler

            Impl = type(f"{sname}Impl", (Base,), {py: make_handler(py, card) for _, py, card, _, _ in methods if py in overridden})
            impl = Impl()
            seen_meta = []
            cf = ChannelFor([impl])
            async with cf as channel:
                listen(cf._server, RecvRequest, _record(seen_meta, None))

                class Proxy:
                    def __init__(self, ch):
                        self._ch = ch
                        self.calls = []

                    def request(self, *a, **kw):
                        self.calls.append(kw)
                        return self._ch.request(*a, **kw)

                    def __getattr__(self, k):
                        return getattr(self._ch, k)

                resend = {}
                for _ in range(n_calls):
                    route, py, card, req_t, rep_t = methods[rng.randrange(len(methods))]
                    cs, ss = card.client_streaming, card.server_streaming
                    stub_opts = {"timeout": rng.choice([None, 50.0]), "deadline": rng.choice([None, Deadline.from_timeout(60.0)]),
                                 "metadata": rng.choice([None, {"x-stub": "s"}])}
                    call_opts = {"timeout": rng.choice([None, 40.0]), "deadline": rng.choice([None, Deadline.from_timeout(70.0)]),
                                 "metadata": rng.choice([None, {"x-call": "c"}, {}])}
                    proxy = Proxy(channel)
                    stub = Stub(proxy, **stub_opts)
                    n_req = rng.choice([0, 1, 1, 2, 4]) if cs else 1
                    n_rep = rng.choice([0, 1, 1, 2, 4]) if ss else 1
                    pingpong = cs and ss and py in overridden and py not in erroring and rng.random() < 0.4
                    if pingpong:
                        n_req = n_rep = rng.choice([2, 3, 5])
                    mode[py] = "interleaved" if pingpong else "batch"
                    reqs = [make_value(req_t) for _ in range(n_req)]
                    if n_req >= 2 and rng.random() < 0.35:
                        # the very same message OBJECT sent several times (a retry loop, a heartbeat): [a, a, a] / [a, b, a]
                        reqs = [reqs[0]] * n_req if rng.random() < 0.5 else [reqs[i % 2] for i in range(n_req - 1)] + [reqs[0]]
                        stats["labels"].add("request_stream_repeats_one_object")
                    sent_snapshots = None
                    if cs and n_req >= 2 and not pingpong and rng.random() < 0.3:
                        # one object, changed IN PLACE between the sends (append / map item / field of a nested message):
                        # what must arrive is what the object held each time it was handed over
                        a = reqs[0]
                        if mutate_in_place(a, rng):
                            import copy as _copy

                            sent_snapshots = []

                            def changing(a=a, n=n_req, snaps=sent_snapshots):
                                for i in range(n):
                                    if i:
                                        mutate_in_place(a, rng)
                                    snaps.append(_copy.deepcopy(a))
                                    yield a

                            reqs = [a] * n_req
                            stats["labels"].add("request_object_mutated_in_place_between_sends")
                    if not cs and rng.random() < 0.3 and resend.get(req_t) is not None:
                        # a unary request object that was sent before, changed in place since
                        a = resend[req_t]
                        if mutate_in_place(a, rng):
                            reqs = [a]
                            stats["labels"].add("unary_request_resent_after_in_place_mutation")
                    if not cs:
                        resend[req_t] = reqs[0]
                    reps = [make_value(rep_t) for _ in range(n_rep)]
                    plan[py] = reps
                    log.clear()
                    seen_meta.clear()
                    where = f"{card.name}|{'overridden' if py in overridden else 'default'}{'|error' if py in erroring else ''}"
                    stats["calls"] += 1
                    both = any(stub_opts[k] is not None and call_opts[k] is not None for k in stub_opts)
                    if len({m[2] for m in methods}) >= 2 or (cs and n_req != 1) or (ss and n_rep != 1) or both:
                        stats["nontrivial"] += 1
                    stats["labels"].add(f"card:{card.name}")
                    fn = getattr(stub, py, None)
                    if fn is None:
                        fails.append(("stub_method_missing", card.name, f"{sname}Stub.{py} (route {route})"))
                        continue
                    kw = {k: v for k, v in call_opts.items() if v is not None or rng.random() < 0.5}
                    if cs:
                        shape = rng.choice(["list", "tuple", "generator", "async_iterator", "async_iterator"])
                        arg = {"list": lambda: list(reqs), "tuple": lambda: tuple(reqs), "generator": lambda: (r for r in reqs),
                               "async_iterator": lambda: _aiter(reqs)}[shape]()
                        if sent_snapshots is not None:
                            arg = changing() if shape != "async_iterator" else _aiter(changing())
                            shape = "generator_mutating" if shape != "async_iterator" else "async_iterator_mutating"
                        stats["labels"].add(f"request_stream_as:{shape}")
                    else:
                        arg = reqs[0]
                    if cs and ss and py in overridden and py not in erroring and not pingpong and sent_snapshots is None and rng.random() < 0.3:
                        # timeout, then retry with the SAME request channel: a first attempt is abandoned (the caller is
                        # cancelled by wait_for while nothing has been sent yet); the retry reads the channel that is fed now.
                        # Everything the caller sends belongs to the retry - the abandoned call may not take any of it.
                        from betterproto.grpc.util.async_channel import AsyncChannel

                        rq = AsyncChannel()

                        async def first_attempt(rq=rq, fn=fn):
                            async for _ in fn(rq):
                                pass

                        try:
                            await asyncio.wait_for(first_attempt(), timeout=3.0)
                        except (asyncio.TimeoutError, grpclib.GRPCError):
                            pass
                        for _ in range(60):
                            await asyncio.sleep(0)
                        log.clear()
                        seen_meta.clear()
                        proxy.calls.clear()
                        feeder = asyncio.ensure_future(rq.send_from(list(reqs), close=True))
                        arg = rq
                        stats["labels"].add("request_stream_as:async_channel_after_abandoned_attempt")
                    got_reps, err = None, None
                    if pingpong:
                        # a conversation: request k+1 is only produced after response k has arrived
                        turn = asyncio.Event()
                        turn.set()

                        async def conversation():
                            for r in reqs:
                                await turn.wait()
                                turn.clear()
                                yield r

                        arg = conversation()
                        stats["labels"].add("pingpong")
                    stats["labels"].add(f"handler_style:{style[py]}" if ss else "handler_style:coroutine")
                    try:
                        if ss and pingpong:
                            got_reps = []
                            async for r in fn(arg, **kw):
                                got_reps.append(r)
                                turn.set()
                        elif ss:
                            got_reps = [r async for r in fn(arg, **kw)]
                        else:
                            got_reps = [await fn(arg, **kw)]
                    except grpclib.GRPCError as e:
                        err = e
                    except Exception as e:  # noqa: BLE001
                        fails.append(("call_raises", f"{where}|{type(e).__name__}", f"{route}: {e}"[:300]))
                        continue
                    # --- oracle
                    if py not in overridden:
                        if err is None or err.status != Status.UNIMPLEMENTED:
                            fails.append(("default_method_not_unimplemented", where, f"{route}: got {err!r} / {got_reps!r:.100}"))
                        continue
                    ran = [p for p, _ in log]
                    if ran != [py]:
                        fails.append(("wrong_handler_invocations", where, f"{route}: handlers run {ran}, want [{py!r}]"))
                        continue
                    received = log[0][1]
                    import copy as _copy2

                    sent = (sent_snapshots if sent_snapshots is not None else reqs) if cs else reqs[0]
                    if not _same(received, sent):
                        fails.append(("request_not_intact", where, f"{route}: handler received {received!r:.200}, sent {sent!r:.200}"))
                    if py in erroring:
                        if err is None or err.status != Status.FAILED_PRECONDITION or err.message != f"boom-{py}":
                            fails.append(("handler_error_not_propagated", where, f"{route}: caller got {err!r} / {got_reps!r:.100}"))
                    else:
                        if err is not None:
                            fails.append(("unexpected_grpc_error", f"{where}|{err.status.name}", f"{route}: {err!r}"))
                        elif not _same(got_reps, reps):
                            fails.append(("response_not_intact", where, f"{route}: caller got {got_reps!r:.200}, handler gave {reps!r:.200}"))
                    # what was received belongs to the receiver: it may write into it (a handler filling in defaults, a
                    # caller appending to a list) - nothing of that may show in messages that arrive later
                    for obj in (received if isinstance(received, list) else [received]) + list(got_reps or []):
                        scribble(obj)
                    # option precedence, observed at the channel.request() boundary
                    if len(proxy.calls) != 1:
                        fails.append(("channel_request_count", where, f"{route}: {len(proxy.calls)} channel.request() calls"))
                    else:
                        k = proxy.calls[0]
                        for opt in ("timeout", "deadline", "metadata"):
                            want = kw.get(opt) if kw.get(opt) is not None else stub_opts[opt]
                            got = k.get(opt)
                            ok = (got == want) if opt == "timeout" else (got is want)
                            if not ok:
                                lvl = ("call" if kw.get(opt) is not None else "none") + "+" + ("stub" if stub_opts[opt] is not None else "none")
                                if opt == "metadata" and kw.get(opt) is not None and not kw.get(opt):
                                    lvl = "call_empty+" + ("stub" if stub_opts[opt] is not None else "none")
                                fails.append(("option_precedence", f"{opt}|{lvl}", f"{route}: channel.request got {opt}={got!r}, want {want!r}"))
                        eff = kw.get("metadata") if kw.get("metadata") is not None else stub_opts["metadata"]
                        if seen_meta:
                            md = seen_meta[0]
                            for key, val in (eff or {}).items():
                                if md.get(key) != val:
                                    fails.append(("metadata_not_received_by_server", "-", f"{route}: server saw {dict(md)!r}, effective {eff!r}"))
                            for key in ("x-stub", "x-call"):
                                if key in md and key not in (eff or {}):
                                    fails.append(("server_received_overridden_metadata", key, f"{route}: server saw {dict(md)!r}, effective {eff!r}"))
        return True

    try:
        run_controlled(scenario, lambda n: 0, max_steps=2_000_000, max_virtual_time=100_000.0)
    except Deadlock:
        fails.append(("call_never_completes", "deadlock", "the caller is still waiting at quiescence (stream never ended?)"))
    except StepLimit:
        stats["inconclusive"] = True
    except Exception as e:  # noqa: BLE001
        fails.append(("scenario_raises", type(e).__name__, f"{e}"[:300]))
    return fails, stats


def _record(seen, ev):
    async def cb(event):
        seen.append(event.metadata)

    return cb


def scribble(msg) -> None:
    """Write into a received message: every list grows, every int / str field of the message itself changes."""
    import dataclasses

    import betterproto

    if not dataclasses.is_dataclass(msg):
        return
    for f in dataclasses.fields(msg):
        meta = betterproto.FieldMetadata.get(f)
        try:
            v = getattr(msg, f.name)
        except AttributeError:
            continue
        try:
            if isinstance(v, list):
                v.append(v[0] if v else ("scribbled" if meta.proto_type == "string" else (b"s" if meta.proto_type == "bytes" else 7)))
            elif isinstance(v, dict):
                pass
            elif meta.group or meta.optional:
                pass
            elif meta.proto_type in ("int32", "int64", "uint32", "uint64", "sint32", "sint64") and isinstance(v, int) and not isinstance(v, bool):
                setattr(msg, f.name, 7 if v != 7 else 8)
            elif meta.proto_type == "string" and isinstance(v, str):
                setattr(msg, f.name, v + "~")
        except Exception:  # noqa: BLE001 - the receiver's own business
            pass


def mutate_in_place(msg, rng) -> bool:
    """Change `msg` WITHOUT assigning one of its own attributes: append to a list, set a map item, or assign inside a
    nested message. Returns False when the message type offers nothing of the kind."""
    import dataclasses

    import betterproto

    if not dataclasses.is_dataclass(msg):
        return False
    cands = []
    for f in dataclasses.fields(msg):
        try:
            v = getattr(msg, f.name)
        except AttributeError:
            continue
        if isinstance(v, list) and v:
            cands.append(("list", v))
        elif isinstance(v, dict) and v:
            cands.append(("dict", v))
        elif isinstance(v, betterproto.Message) and dataclasses.is_dataclass(v):
            for g in dataclasses.fields(v):
                meta = betterproto.FieldMetadata.get(g)
                if meta.proto_type in ("int32", "int64", "uint32", "uint64", "sint32", "sint64") and not meta.group and not meta.optional:
                    try:
                        cur = getattr(v, g.name)
                    except AttributeError:
                        continue
                    if isinstance(cur, int) and not isinstance(cur, bool):  # (a repeated int32 has the same proto_type)
                        cands.append(("nested", (v, g.name)))
                        break
    if not cands:
        return False
    kind, target = cands[rng.randrange(len(cands))]
    if kind == "list":
        target.append(target[0])
    elif kind == "dict":
        k = next(iter(target))
        nk = (k + "x") if isinstance(k, str) else (not k if isinstance(k, bool) else (1 if k != 1 else 2))
        target[nk] = target[k]
    else:
        v, name = target
        setattr(v, name, 1 if getattr(v, name) != 1 else 2)
    return True


async def _aiter_gen(items):
    for x in items:
        yield x


def _aiter(items):
    return _aiter_gen(items)


def _same(a, b):
    if isinstance(a, list) or isinstance(b, list):
        return isinstance(a, list) and isinstance(b, list) and len(a) == len(b) and all(_same(x, y) for x, y in zip(a, b))
    return type(a) is type(b) and bytes(a) == bytes(b) and a == b


def targets(ctx):
    def run(files, seed, n_calls, opts=()):
        c = gen.compile_files(files, opts=tuple(opts), tag="c11_")
        try:
            if c.protoc_rejected:
                return None, None
            if c.rc != 0:
                return [("plugin_failed", "-", (c.stderr.strip().splitlines() or ["?"])[-1][:300])], {}
            gen.import_all(c)
            if c.import_errors:
                return [("generated_package_not_importable", e.split(":")[0], f"{p}: {e[:300]}") for p, e in c.import_errors.items()], {}
            return exercise(c, seed, n_calls, pydantic="pydantic_dataclasses" in opts)
        finally:
            c.cleanup()

    def pack(found, stats, extra):
        seen, fails = set(), []
        for cl, where, d in found:
            sig = f"{cl}|{where}"
            if sig not in seen:
                seen.add(sig)
                fails.append(Failure(cl, sig, d + extra))
        return Eval(fails, weight=max(1, stats.get("calls", 0)), nontrivial_count=stats.get("nontrivial", 0),
                    labels=sorted(stats.get("labels", [])) + (["inconclusive_step_limit"] if stats.get("inconclusive") else []))

    # request / response types whose NAMES matter to the generated stub: a request message named after the child package
    # it lives in (its parameter must not hide the module alias the response type is reached through), request messages
    # named like the stub's own keyword parameters, the same names in another package
    SHAPES_PROTO = {
        "shop.proto": 'syntax = "proto3";\npackage shop;\nimport "shop_order.proto";\nimport "billing.proto";\n'
                      "message Cart { int32 n = 1; int32 mk20001 = 20001; }\nmessage Timeout { int32 s = 1; int32 mk20008 = 20008; }\n"
                      "message Metadata { string k = 1; int32 mk20009 = 20009; }\nmessage Deadline { int32 s = 1; int32 mk20010 = 20010; }\n"
                      "message Request { int32 s = 1; int32 mk20011 = 20011; }\nmessage Stream { int32 s = 1; int32 mk20012 = 20012; }\n"
                      "service Shop {\n  rpc Place (shop.order.Order) returns (shop.order.Receipt);\n  rpc PlaceMany (stream shop.order.Order) returns (shop.order.Receipt);\n"
                      "  rpc Track (shop.order.Order) returns (stream shop.order.Receipt);\n  rpc Talk (stream shop.order.Order) returns (stream shop.order.Receipt);\n"
                      "  rpc Pay (billing.Order) returns (shop.order.Receipt);\n  rpc Meta (billing.Metadata) returns (billing.Timeout);\n  rpc Dl (billing.Deadline) returns (billing.Metadata);\n"
                      "  rpc OwnT (Timeout) returns (Cart);\n  rpc OwnM (Metadata) returns (Deadline);\n  rpc OwnD (Deadline) returns (Metadata);\n  rpc OwnTs (stream Timeout) returns (stream Metadata);\n"
                      "  rpc OwnR (Request) returns (Stream);\n  rpc OwnS (Stream) returns (stream Request);\n}\n",
        "shop_order.proto": 'syntax = "proto3";\npackage shop.order;\nmessage Order { int32 id = 1; repeated string items = 2; int32 mk20002 = 20002; }\nmessage Receipt { int32 id = 1; int32 mk20003 = 20003; }\n',
        "billing.proto": 'syntax = "proto3";\npackage billing;\nmessage Order { int32 id = 1; int32 mk20004 = 20004; }\nmessage Metadata { string k = 1; int32 mk20005 = 20005; }\n'
                         "message Timeout { int32 s = 1; int32 mk20006 = 20006; }\nmessage Deadline { int32 s = 1; int32 mk20007 = 20007; }\n",
    }

    def fixed_cases():
        yield {"fixed": "type_names_that_matter_to_the_stub", "seed": 400 + ctx.seed * 10}
        yield {"fixed": "type_names_that_matter_to_the_stub", "seed": 500 + ctx.seed * 10, "opts": ["pydantic_dataclasses"]}
        for s in range(3):
            yield {"fixed": "all_cardinalities_service", "seed": 100 + s + ctx.seed * 10}
        # the same service generated with the other plugin options
        yield {"fixed": "all_cardinalities_service", "seed": 200 + ctx.seed * 10, "opts": ["pydantic_dataclasses"]}
        yield {"fixed": "all_cardinalities_service", "seed": 300 + ctx.seed * 10, "opts": ["typing.310"]}

    def fixed_ev(case):
        opts = case.get("opts", [])
        proto = SHAPES_PROTO if case["fixed"] == "type_names_that_matter_to_the_stub" else SERVICE_PROTO
        found, stats = run(proto, case["seed"], 40 if not ctx.thorough else 200, opts)
        if opts:
            found = [(cl, "+".join(opts) + "|" + where, d) for cl, where, d in (found or [])]
            stats.setdefault("labels", set()).add("variant:" + "+".join(opts))
        return pack(found, stats, "")

    def grammar_ev(case):
        files = render(case["ast"])
        opts = case.get("opts", [])
        found, stats = run(files, case["seed"], 20 if not ctx.thorough else 50, opts)
        if opts and found:
            found = [(cl, "+".join(opts) + "|" + where, d) for cl, where, d in found]
        if found is None:
            return Eval(discard="protoc rejects")
        if not stats.get("calls") and not found:
            return Eval(discard="schema without service")
        return pack(found, stats, "\n--- protos ---\n" + "\n".join(f"# {n}\n{t}" for n, t in files.items())[:2500])

    def has_service(ast):
        return any(f["services"] for f in ast["files"])

    strat = st.tuples(schema_ast(max_packages=2).filter(has_service), st.integers(0, 2**20), st.sampled_from([[], [], ["pydantic_dataclasses"], ["typing.310"]])).map(
        lambda t: {"ast": t[0], "seed": t[1], **({"opts": t[2]} if t[2] else {})})
    return [
        Target("all_cardinalities_service", fixed_ev, cases=fixed_cases, exhaustive=False, shard_cases=True, quick=5, thorough=5),
        Target("grammar_services", grammar_ev, strategy=strat, quick=12, thorough=80, time_quick=120, time_thorough=1500, pin_budget=10, pin_sigs=1),
    ]
