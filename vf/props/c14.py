"""C14 Observers are pure; copy, deepcopy and pickle are faithful and independent."""
from __future__ import annotations

import copy
import json
import pickle

from hypothesis import strategies as st

from .. import wire
from ..engine import Eval, Failure, Guarded, Target, guard
from ..values import BPAdapter, BPInfo, norm, snap_bp, to_ref
from . import _common as cm
from ._corpus import corpus
from .c06 import nondefault

LEVEL = "exploration"
QUICK_SHARDS = 4
RULE = (
    "Histories: a message obtained by {constructor from a value tree, in-place mutation of lazily created members, parse of reference bytes with generated unknown "
    "records interleaved, from_dict of its own to_dict} then a generated sequence of observers {read every attribute "
    "incl. lazily defaulted nested ones (depth 3), bytes, len, == with itself / with an independently built equal "
    "message, bool, repr, to_dict (both casings, include_default_values on/off), to_json, to_pydict}, then "
    "copy / deepcopy / pickle in generated order, then a generated mutation of the copy (set scalar, assign inside a "
    "nested message, list.append, dict[k]=v, in-place mutation of a repeated / map message element, switch oneof "
    "member). Oracle (metamorphic): after each observer bytes(m), the public-observer snapshot (values, oneof "
    "selection, None-ness, nested presence), to_dict in both casings, bool(m), is_set of every field (own clause) and m == equal-copy are unchanged (an "
    "observer that raises is tolerated and counted, state must still be unchanged); each copy c: c == m, bytes equal, "
    "snapshot equal; after mutating a deep copy or an unpickled copy the original's bytes and snapshot are unchanged. "
    "Non-trivial = message with >=1 of {unknown fields, map of messages, present-but-empty nested message, unset "
    "nested message that gets read} and >=2 observers before the copy. Plus in-place histories against tree models (vf/props/_prog.py): the original is not looked at between the steps, copies are mutated through lazily created members, the original is mutated in place between two copies / pickles, a fresh instance of every class must still be empty at the end."
)
ASSUMPTIONS = ["C14 claims purity, not totality: an observer raising is counted, not a violation",
               "mutating a *shallow* copy's containers may legitimately affect the original and is not generated"]

OBSERVERS = ["read_all", "read_deep", "bytes", "len", "eq_self", "eq_equal", "eq_other", "bool", "repr", "to_dict_camel", "to_dict_snake",
             "to_dict_defaults", "to_json", "to_pydict", "to_pydict_defaults", "is_set_all", "which_one_of_all", "hash_free_compare"]


def targets(ctx):
    import betterproto

    c = corpus()
    schema = c.schema
    adapter = BPAdapter(schema)

    def obtain(name, tree, source, unknown, pos):
        cls = c.bp(name)
        mi = schema.msg(f"ks.{name}")
        if source == "construct":
            return guard("construct", adapter.build, cls, mi, tree)
        if source == "lazy":
            return guard("construct_lazy", adapter.build, cls, mi, tree, "lazy")
        if source == "parse":
            recs = wire.parse_records(to_ref(schema, c.ref, mi.full_name, tree).SerializeToString(deterministic=True))
            recs = cm.interleave(recs, [cm.unknown_to_record(u) for u in unknown], pos)
            return guard("parse", cls().parse, b"".join(r.raw for r in recs))
        m0 = guard("construct", adapter.build, cls, mi, tree)
        d = guard("to_dict_for_source", m0.to_dict)
        return guard("from_dict", cls().from_dict, json.loads(json.dumps(d)))

    _mode = ["sow"]
    _others = []

    def state(m, mi):
        b = guard("bytes", bytes, m)
        snap = norm(schema, mi, guard("snapshot", snap_bp, schema, mi, m, _mode[0]))
        return b, snap

    def json_state(m):
        """What the message encodes to in JSON form (both casings) and its truth value; a form that cannot be produced
        (to_dict raising) is part of the state as such."""
        out = []
        for cas in (betterproto.Casing.CAMEL, betterproto.Casing.SNAKE):
            try:
                out.append(repr(m.to_dict(cas)))
            except Exception as e:  # noqa: BLE001
                out.append("raises " + type(e).__name__)
        try:
            out.append(bool(m))
        except Exception as e:  # noqa: BLE001
            out.append("raises " + type(e).__name__)
        return out

    def is_set_vec(m):
        info = BPInfo.of(type(m))
        return tuple((n, m.is_set(n)) for n, _ in info.fields)

    def sow_vec(m, depth=3, path=""):
        """serialized_on_wire of the message and of every plain sub-message it holds (what "reports as present" means)."""
        out = [(path or ".", betterproto.serialized_on_wire(m))]
        info = BPInfo.of(type(m))
        for n, meta in info.fields:
            if meta.proto_type != "message" or depth <= 0:
                continue
            try:
                v = getattr(m, n)
            except AttributeError:
                continue
            if isinstance(v, betterproto.Message):
                out += sow_vec(v, depth - 1, f"{path}.{n}")
        return tuple(out)

    def deep_read(m, depth=3):
        info = BPInfo.of(type(m))
        for n, meta in info.fields:
            try:
                v = getattr(m, n)
            except AttributeError:
                continue
            if isinstance(v, betterproto.Message) and depth > 0:
                deep_read(v, depth - 1)
            elif isinstance(v, list):
                for x in v:
                    if isinstance(x, betterproto.Message) and depth > 0:
                        deep_read(x, depth - 1)
            elif isinstance(v, dict):
                for x in v.values():
                    if isinstance(x, betterproto.Message) and depth > 0:
                        deep_read(x, depth - 1)

    def observe(m, equal, what):
        C = betterproto.Casing
        if what == "snapshot_reads":
            pass  # the state() call below reads every attribute through the public observers
        elif what == "read_all":
            for n, _ in BPInfo.of(type(m)).fields:
                try:
                    getattr(m, n)
                except AttributeError:
                    pass
        elif what == "read_deep":
            deep_read(m)
        elif what == "bytes":
            bytes(m)
        elif what == "len":
            len(m)
        elif what == "eq_self":
            m == m
        elif what in ("eq_equal", "hash_free_compare"):
            m == equal
            equal == m
        elif what == "eq_other":
            # compared with a DIFFERENT message of its class (other fields set, other oneof members selected), both ways
            for o in _others:
                m == o
                o == m
        elif what == "bool":
            bool(m)
        elif what == "repr":
            repr(m)
        elif what == "to_dict_camel":
            m.to_dict()
        elif what == "to_dict_snake":
            m.to_dict(C.SNAKE)
        elif what == "to_dict_defaults":
            m.to_dict(C.CAMEL, include_default_values=True)
        elif what == "to_json":
            m.to_json()
        elif what == "to_pydict":
            m.to_pydict()
        elif what == "to_pydict_defaults":
            m.to_pydict(C.SNAKE, include_default_values=True)
        elif what == "is_set_all":
            is_set_vec(m)
        elif what == "which_one_of_all":
            for g in BPInfo.of(type(m)).cls._betterproto.oneof_field_by_group if False else []:
                pass
            mi_ = None
        else:
            raise AssertionError(what)

    def mutate(cp, mi, mut_idx, info_out):
        """Mutate the copy in place according to the field chosen by mut_idx; returns a label."""
        info = BPInfo.of(type(cp))
        fields = mi.fields
        fi = fields[mut_idx % len(fields)]
        name = info.pyname(fi)
        ec = info.elem_class(fi)
        if fi.card == "repeated":
            lst = getattr(cp, name)
            if lst and fi.type == "message" and fi.wkt is None and schema.msg(fi.msg).fields:
                sub_fi = next(f for f in schema.msg(fi.msg).fields if f.type != "message" and f.card == "single" and not f.oneof)
                setattr(lst[0], BPInfo.of(type(lst[0])).pyname(sub_fi), adapter.single(None, sub_fi, nondefault(schema, sub_fi), False))
                return "repeated_elem_inplace"
            lst.append(adapter.single(ec, fi, nondefault(schema, fi), False))
            return "list_append"
        if fi.card == "map":
            mp = getattr(cp, name)
            if mp and fi.val.type == "message" and fi.val.wkt is None and schema.msg(fi.val.msg).fields:
                first = next(iter(mp.values()))
                sub_fi = next(f for f in schema.msg(fi.val.msg).fields if f.type != "message" and f.card == "single" and not f.oneof)
                setattr(first, BPInfo.of(type(first)).pyname(sub_fi), adapter.single(None, sub_fi, nondefault(schema, sub_fi), False))
                return "map_value_inplace"
            mp[nondefault(schema, fi.key)] = adapter.single(ec, fi.val, nondefault(schema, fi.val), False)
            return "dict_setitem"
        if fi.type == "message" and fi.wkt is None and not fi.oneof and fi.card == "single" and schema.msg(fi.msg).fields:
            sub = getattr(cp, name)
            sub_fi = next((f for f in schema.msg(fi.msg).fields if f.type != "message" and f.card == "single" and not f.oneof), None)
            if sub_fi is not None:
                setattr(sub, BPInfo.of(type(sub)).pyname(sub_fi), adapter.single(None, sub_fi, nondefault(schema, sub_fi), False))
                return "assign_inside_nested"
        setattr(cp, name, adapter.single(ec, fi, nondefault(schema, fi), fi.card == "single" and not fi.oneof))
        return "switch_oneof" if fi.oneof else "set_field"

    def run(case):
        """-> (failures [(clause, detail)], stats)"""
        name, tree = case["msg"], case["tree"]
        mi = schema.msg(f"ks.{name}")
        stats = {"raised": 0}
        # a message filled in place through lazily created members has content without the intermediate presence flag
        # (C06's known finding); its copies obtained through the wire do have the flag: presence = flag OR content there
        _mode[0] = "sow_or_content" if case["source"] == "lazy" else "sow"
        out = []
        soft = []  # is_set flips: recorded, but the history continues behind them
        try:
            m = obtain(name, tree, case["source"], case.get("unknown", []), case.get("pos", []))
            equal = obtain(name, tree, case["source"], case.get("unknown", []), case.get("pos", []))
            _others[:] = [guard("construct_other", adapter.build, c.bp(name), mi, t) for t in case.get("other_trees", [])] + [c.bp(name)()]
            if case.get("bytearrays"):
                # bytes fields handed over as bytearray objects (what a receive buffer is): read-only operations must not
                # write into them either
                for fi_ in mi.fields:
                    if fi_.type == "bytes" and fi_.wkt is None and fi_.name in tree:
                        for obj_ in (m, equal):
                            v_ = getattr(obj_, BPInfo.of(type(obj_)).pyname(fi_))
                            if isinstance(v_, bytes):
                                setattr(obj_, BPInfo.of(type(obj_)).pyname(fi_), bytearray(v_))
                            elif isinstance(v_, list):
                                v_[:] = [bytearray(x) for x in v_]
                            elif isinstance(v_, dict):
                                for k_ in list(v_):
                                    v_[k_] = bytearray(v_[k_])
            set0 = is_set_vec(m)  # before anything reads the message
            j0 = json_state(m)  # the JSON form before anything else (also of the harness) has looked inside the message
            sow0 = sow_vec(m)  # ... and before anything encodes it
            b0, s0 = state(m, mi)
            eq0 = guard("eq_initial", lambda: m == equal)
            if eq0 is not True:
                out.append(("equal_messages_not_equal", f"two messages obtained the same way compare {eq0!r}"))
            for what in ["snapshot_reads"] + list(case["observers"]):
                try:
                    observe(m, equal, what)
                except Exception as e:  # noqa: BLE001 - purity, not totality (RecursionError included)
                    stats["raised"] += 1
                    stats.setdefault("raised_by", set()).add(f"{what}:{type(e).__name__}")
                try:
                    b1, s1 = state(m, mi)
                except Guarded as g:
                    out.append((f"observer_broke_message|{what}", f"after the observer {g}"[:300]))
                    return out, stats
                if b1 != b0:
                    out.append((f"observer_changed_bytes|{what}", f"before={b0.hex()[:160]} after={b1.hex()[:160]}"))
                if s1 != s0:
                    out.append((f"observer_changed_snapshot|{what}", f"before={s0!r:.250} after={s1!r:.250}"))
                if (m == equal) is not eq0:
                    out.append((f"observer_changed_equality|{what}", "m == equal-copy flipped"))
                j1 = json_state(m)
                if j1 != j0:
                    out.append((f"observer_changed_json_form|{what}", f"to_dict / bool before={j0!r:.250} after={j1!r:.250}"))
                sow1 = sow_vec(m)
                if sow1 != sow0:
                    diff = [p for (p, a), (_, b) in zip(sow0, sow1) if a != b] if len(sow0) == len(sow1) else ["<shape>"]
                    out.append((f"observer_changed_serialized_on_wire|{what}", f"serialized_on_wire flipped at {diff}"))
                set1 = is_set_vec(m)
                hard = len(out)
                if set1 != set0:
                    diff = [n for (n, a), (_, b) in zip(set0, set1) if a != b]
                    fis = [next(f for f in mi.fields if BPInfo.of(type(m)).pyname(f) == n) for n in diff]
                    classes = sorted({"oneof" if f.oneof else ("wrapper" if f.wkt == "wrapper" else f.card) for f in fis})
                    soft.append((f"observer_changed_is_set|{what}|{'+'.join(classes)}", f"is_set flipped for {diff}"))
                    set0 = set1  # report each flip once; keep exploring behind it
                if out:
                    return out + soft, stats
            for i, kind in enumerate(case["copies"]):
                if kind == "copy":
                    cp = guard("copy", copy.copy, m)
                elif kind == "deepcopy":
                    cp = guard("deepcopy", copy.deepcopy, m)
                else:
                    cp = guard("pickle", lambda: pickle.loads(pickle.dumps(m)))
                bc, sc = state(cp, mi)
                if bc != b0:
                    out.append((f"{kind}_bytes_differ", f"orig={b0.hex()[:160]} copy={bc.hex()[:160]}"))
                if sc != s0:
                    out.append((f"{kind}_snapshot_differs", f"orig={s0!r:.250} copy={sc!r:.250}"))
                if guard("copy_eq", lambda: cp == m) is not True:
                    out.append((f"{kind}_not_equal", "copy != original"))
                b1, s1 = state(m, mi)
                if (b1, s1) != (b0, s0):
                    out.append((f"{kind}_changed_original", "copying changed the original"))
                if out:
                    return out + soft, stats
                if kind in ("deepcopy", "pickle") and mi.fields:
                    label = guard("mutate_copy", mutate, cp, mi, case.get("mut", 0) + i, stats)
                    stats.setdefault("mutations", set()).add(label)
                    b1, s1 = state(m, mi)
                    if b1 != b0 or s1 != s0:
                        out.append((f"mutation_of_{kind}_leaks|{label}", f"orig before={s0!r:.200} after={s1!r:.200}"))
                        return out + soft, stats
        except Guarded as g:
            out.append((f"raises_{g.where}_{type(g.exc).__name__}", str(g)))
        return out + soft, stats

    def ev(case):
        name, tree = case["msg"], case["tree"]
        mi = schema.msg(f"ks.{name}")
        found, stats = run(case)
        fails = []
        for cl, d in found:
            base = cl.split("|")[0]

            def f(mi2, t2, cl=cl):
                c2 = dict(case, msg=mi2.full_name.split(".")[-1], tree=t2)
                return any(x == cl for x, _ in run(c2)[0])

            wheres = ["-"] if base == "observer_changed_is_set" else cm.culprits(schema, mi, tree, f, cache_key=(cl, case["source"], tuple(case["observers"]), tuple(case["copies"]))) if tree else ["empty"]
            if case.get("unknown") and wheres and wheres[0].startswith("interaction"):
                wheres = ["unknown_fields"]
            for w in wheres:
                fails.append(Failure(base, f"{cl}|{case['source']}|{w}"[:240], f"case={case!r:.900} :: {d}"))
        descr = [cm.describe(schema, fi, tree[fi.name]) for fi in mi.fields if fi.name in tree]
        marks = bool(case.get("unknown")) or any(d.startswith("map<") and ",message>" in d for d in descr) \
            or any(d.startswith("single:message") for d in descr) \
            or any(fi.type == "message" and fi.wkt is None and fi.card == "single" and fi.name not in tree for fi in mi.fields)
        labs = [f"source:{case['source']}", f"n_obs:{min(len(case['observers']), 6)}"] + [f"obs:{o}" for o in set(case["observers"])] + \
               [f"copy:{k}" for k in case["copies"]] + [f"mut:{x}" for x in stats.get("mutations", [])] + \
               [f"observer_raised:{x}" for x in stats.get("raised_by", [])]
        return Eval(fails, nontrivial=marks and len(case["observers"]) >= 2, labels=labs)

    base = cm.msg_tree_strategy(c)
    _ts = cm.tree_strats(c)
    # Known finding (see known_findings.json, probed by the fixed target below): include_default_values=True recurses
    # without bound on message types that reach a recursive message. Excluded from generation by construction so
    # that the search continues behind it; the exclusions are counted.
    RECURSIVE_TYPES = {"Scalars", "Rec", "Mixed", "Maps", "Oneofs"}

    @st.composite
    def strat(draw):
        case = dict(draw(base))
        case["source"] = draw(st.sampled_from(["construct", "lazy", "parse", "parse", "from_dict"]))
        if case["source"] == "parse":
            mi = schema.msg(f"ks.{case['msg']}")
            us = draw(st.lists(cm.unknown_record_strategy(cm.unused_numbers(mi)), max_size=2))
            case["unknown"] = us
            case["pos"] = draw(st.lists(st.integers(0, 40), min_size=len(us), max_size=len(us)))
        obs = draw(st.lists(st.sampled_from(OBSERVERS[:-2]), min_size=0, max_size=6))
        if case["msg"] in RECURSIVE_TYPES and any(o.endswith("_defaults") for o in obs):
            ctx.extra["excluded_known_finding_defaults_on_recursive_types"] = ctx.extra.get("excluded_known_finding_defaults_on_recursive_types", 0) + 1
            obs = [o for o in obs if not o.endswith("_defaults")]
        case["observers"] = obs
        case["copies"] = draw(st.lists(st.sampled_from(["copy", "deepcopy", "pickle"]), min_size=1, max_size=3))
        case["mut"] = draw(st.integers(0, 40))
        if "eq_other" in obs:
            case["other_trees"] = draw(st.lists(_ts.message(f"ks.{case['msg']}"), min_size=1, max_size=2))
        if case["source"] == "construct" and draw(st.integers(0, 3)) == 0:
            case["bytearrays"] = True
        return case

    # dense values (many fields of the container-heavy messages) under at least two observers
    dense_base = cm.msg_tree_strategy(c, names=["Maps"] * 3 + ["Repeats"] * 3 + ["Wrappers", "Optionals", "Times", "Scalars"], max_fields=12)

    @st.composite
    def dense(draw):
        case = dict(draw(dense_base))
        case["source"] = draw(st.sampled_from(["construct", "parse", "from_dict"]))
        case["unknown"], case["pos"] = [], []
        obs = draw(st.lists(st.sampled_from(OBSERVERS[:-2]), min_size=2, max_size=5))
        if case["msg"] in RECURSIVE_TYPES:
            obs = [o for o in obs if not o.endswith("_defaults")]
        case["observers"] = obs
        case["copies"] = draw(st.lists(st.sampled_from(["copy", "deepcopy", "pickle"]), min_size=1, max_size=2))
        case["mut"] = draw(st.integers(0, 40))
        return case

    # payloads beyond 1 KiB / 64 KiB, copied several times in a row (each copy is mutated before the next is taken)
    @st.composite
    def big(draw):
        n = draw(st.sampled_from([1024, 1100, 5000, 70000]))
        kind = draw(st.sampled_from(["string", "bytes", "packed", "leaves", "map"]))
        if kind == "string":
            msg, tree = "Scalars", {"f_string": "x" * n, "f_int32": draw(st.integers(-5, 5))}
        elif kind == "bytes":
            msg, tree = "Optionals", {"o_bytes": b"\x01" * n, "o_int32": 0}
        elif kind == "packed":
            msg, tree = "Repeats", {"r_fixed64": [7] * (n // 8 + 1), "r_string": ["a"]}
        elif kind == "leaves":
            msg, tree = "Repeats", {"r_leaf": [{"i": 1, "s": "y" * 60}] * (n // 60 + 1)}
        else:
            msg, tree = "Maps", {"m_string_leaf": [["k" * (n // 2), {"s": "v" * (n // 2)}]], "m_int32_int32": [[1, 2]]}
        return {"msg": msg, "tree": tree, "source": draw(st.sampled_from(["construct", "parse"])), "unknown": [], "pos": [],
                "observers": draw(st.lists(st.sampled_from(["bytes", "len", "eq_self", "repr"]), max_size=2)),
                "copies": draw(st.lists(st.sampled_from(["pickle", "pickle", "deepcopy", "copy"]), min_size=2, max_size=4)),
                "mut": draw(st.integers(0, 40))}

    def probe_cases():
        for obs in ("to_dict_defaults", "to_pydict_defaults"):
            yield {"msg": "Rec", "tree": {"i32": 1}, "source": "construct", "observers": [obs], "copies": [], "mut": 0}

    from . import _prog, _seq

    def prog_ev(case):
        found = _prog.run(c, case, observe)
        steps = case["steps"]
        fails = [Failure(cl.split("|")[0], f"prog|{cl}|{case['msg']}", f"case={case!r:.1200} :: {d}") for cl, d in found]
        muts = [s_ for s_ in steps if s_["op"] == "mut"]
        labs = [f"prog_msg:{case['msg']}", f"prog_steps:{len(steps)}"] + sorted({f"prog_op:{s_['op']}" for s_ in steps}) + \
               (["prog:mut_on_copy"] if any(s_["on"] > 0 for s_ in muts) else []) + (["prog:mut_on_original"] if any(s_["on"] == 0 for s_ in muts) else []) + \
               (["prog:empty_start"] if not case["tree"] else [])
        return Eval(fails, nontrivial=bool(muts) and any(s_["op"] == "copy" for s_ in steps), labels=labs)

    prog_strat = _prog.strategy(c, ["Holder"] * 4 + ["Box", "Mixed", "Rec", "Repeats", "Maps", "Oneofs", "Scalars"], OBSERVERS[:-2], RECURSIVE_TYPES)

    return [
        Target("inplace_histories_vs_model", prog_ev, strategy=prog_strat, quick=500, thorough=6000, time_quick=60,
               rule="programs of in-place mutations / copies / observers over an original that is not looked at in between; every object is compared with the tree model of its own history, and a fresh instance must stay empty; non-trivial = >=1 mutation and >=1 copy"),
        Target("observer_and_copy_histories", ev, strategy=strat(), quick=400, thorough=6000, time_quick=80),
        Target("dense_values_observed", ev, strategy=dense(), quick=150, thorough=2500, time_quick=60),
        Target("big_payload_copy_chains", ev, strategy=big(), quick=40, thorough=400),
        Target("known_finding_probe", ev, cases=probe_cases, exhaustive=True, shard_cases=False),
        _seq.target("C14"),
    ]
