"""C18 Every supported plugin option yields importable, behaviourally identical code."""
from __future__ import annotations

import random
import sys

from hypothesis import strategies as st

from .. import gen
from ..engine import Eval, Failure, Target
from ..schema import render, schema_ast
from ..schema_info import INT_RANGES, Schema
from ..values import BPAdapter, DUR_MAX_US, TS_MAX_US, TS_MIN_US
from .c03 import features, validate

LEVEL = "translation_validation"
PROGRAM_TARGETS = ("all_cardinalities_service_x_options", "grammar_schemas_x_options")
QUICK_SHARDS = 8
THOROUGH_SHARDS = 16
VARIANTS = [(), ("typing.root",), ("typing.310",), ("pydantic_dataclasses",), ("typing.root", "pydantic_dataclasses"), ("typing.310", "pydantic_dataclasses")]
RULE = (
    "Programs x configurations: Hypothesis grammar schemas (as C03, incl. services with every streaming cardinality, "
    "optional fields, maps, oneofs, cross-package references) x the 3 x 2 option combinations {typing.direct, "
    "typing.root, typing.310} x {dataclasses, pydantic_dataclasses}; plus a fixed all-cardinality service schema and "
    "a fixed family of packages that each use exactly ONE typing construct (only a map, only an optional, only a "
    "repeated, only a wrapper, only a oneof, only a streaming service, ...). "
    "Oracle (metamorphic across configurations + protoc's descriptors): every variant compiles and imports; each "
    "variant passes the C03 structural validation against the FileDescriptorSet and has the same marker-indexed "
    "description (classes, field numbers, proto types, groups, enum numbers, stub methods, routes, cardinalities, "
    "request / reply types) as the default variant; for PRNG-drawn value trees (seed drawn by Hypothesis) that the "
    "default variant accepts, every variant builds the message and bytes() and to_json() are identical. Non-trivial "
    "= schema with a service having >=1 client-streaming method, or optional + map + cross-package reference."
)
ASSUMPTIONS = ["plugin output judged before ruff (identity stand-in), see C03", "pydantic 2.13 as installed"]


def simple_tree(schema: Schema, full: str, rng: random.Random, depth: int = 2):
    mi = schema.msg(full)
    tree = {}
    groups = set()
    for fi in mi.fields:
        if fi.number > 20000 or rng.random() < 0.45:
            continue
        if fi.oneof:
            if fi.oneof in groups:
                continue
            groups.add(fi.oneof)

        def one(f):
            if f.wkt == "timestamp":
                return rng.choice([0, 1_500_000, -1, TS_MAX_US, 1_600_000_000_123_000])
            if f.wkt == "duration":
                return rng.choice([0, -1_500_000, 1, 10**12 + 5])
            t = f.wraps if f.wkt == "wrapper" else f.type
            if t == "message":
                if f.msg == "google.protobuf.Empty":
                    return {}
                return simple_tree(schema, f.msg, rng, depth - 1) if depth > 0 else {}
            if t == "enum":
                nums = schema.enums[f.enum].numbers
                if rng.randrange(6) == 0:  # proto3 enums are open: a number the enum does not list
                    return rng.choice([n for n in (max(nums) + 1, -7, 12345, 54321) if n not in nums and n < 2**31])
                return rng.choice(nums)
            if t in INT_RANGES:
                lo, hi = INT_RANGES[t]
                return rng.choice([0, 1, hi, lo, 77, min(hi, 2**31 - 1)])
            return {"float": rng.choice([0.0, 1.5, float("inf")]), "double": rng.choice([0.0, -2.25, float("nan")]), "bool": rng.choice([True, False]),
                    "string": rng.choice(["", "x", "é😀"]), "bytes": rng.choice([b"", b"\x00\xff"])}[t]

        if fi.card == "repeated":
            tree[fi.name] = [one(fi) for _ in range(rng.randrange(0, 3))]
        elif fi.card == "map":
            keys = []
            for _ in range(rng.randrange(0, 3)):
                k = one(fi.key)
                if k not in keys:
                    keys.append(k)
            tree[fi.name] = [[k, one(fi.val)] for k in keys]
        else:
            tree[fi.name] = one(fi)
    return tree


def service_description(c: gen.Compiled, by_class_marker):
    """{(package, service): {route: (cardinality, req, reply)}, stub methods}"""
    import betterproto
    from betterproto.grpc.grpclib_server import ServiceBase

    out = {}
    for pkg, mod in c.modules.items():
        for name, obj in vars(mod).items():
            if isinstance(obj, type) and obj.__module__ == mod.__name__:
                if issubclass(obj, ServiceBase) and obj is not ServiceBase:
                    try:
                        mapping = obj().__mapping__()
                        out[(pkg, name)] = {r: (h.cardinality.name, by_class_marker.get(h.request_type, getattr(h.request_type, "__name__", "?")),
                                                by_class_marker.get(h.reply_type, getattr(h.reply_type, "__name__", "?"))) for r, h in mapping.items()}
                    except Exception as e:  # noqa: BLE001
                        out[(pkg, name)] = f"__mapping__ raises {type(e).__name__}: {e}"
                elif issubclass(obj, betterproto.ServiceStub) and obj is not betterproto.ServiceStub:
                    out[(pkg, name)] = sorted(k for k, v in vars(obj).items() if callable(v) and not k.startswith("_"))
    return out


def foreign_library_types(c: gen.Compiled, pydantic: bool):
    """Request / reply classes of the generated services that are not the package's own: they must come from the
    library the variant's MESSAGE fields use (betterproto.lib.pydantic.* under pydantic_dataclasses, never otherwise),
    or handler and codec disagree about the class of the very same well-known type."""
    from betterproto.grpc.grpclib_server import ServiceBase

    bad = []
    own = {m.__name__ for m in c.modules.values()}
    for pkg, mod in c.modules.items():
        for name, obj in vars(mod).items():
            if isinstance(obj, type) and obj.__module__ == mod.__name__ and issubclass(obj, ServiceBase) and obj is not ServiceBase:
                try:
                    mapping = obj().__mapping__()
                except Exception:  # noqa: BLE001 (reported by the description comparison)
                    continue
                for route, h in mapping.items():
                    for role, t in (("request", h.request_type), ("reply", h.reply_type)):
                        modname = getattr(t, "__module__", "")
                        if modname in own or not modname.startswith("betterproto.lib"):
                            continue
                        if (".pydantic." in modname) != pydantic:
                            bad.append(f"{route} {role} type {modname}.{t.__name__}")
    return bad


def structure(c: gen.Compiled, pydantic: bool):
    """(description keyed by marker, class by marker, by_class_marker)"""
    class_by_marker, by_class_marker = {}, {}
    for pkg, mod in c.modules.items():
        msgs, enums = gen.classes_of(mod)
        for cls in msgs:
            mk = gen.marker_of_message(cls)
            if mk:
                class_by_marker[mk] = cls
                by_class_marker[cls] = mk
        for cls in enums:
            mk = gen.marker_of_enum(cls)
            if mk:
                class_by_marker[mk] = cls
                by_class_marker[cls] = mk
    import betterproto

    desc = {}
    for mk, cls in class_by_marker.items():
        if issubclass(cls, betterproto.Enum):
            desc[mk] = ("enum", [(m.value) for m in cls.__members__.values()], list(cls.__members__))
        else:
            try:
                d = gen.describe_class(cls, by_class_marker)
            except Exception as e:  # noqa: BLE001 - reported by validate() as type_hints_unresolvable
                desc[mk] = ("message", {0: ("unresolvable", type(e).__name__)})
                continue
            norm = {}
            for n, f in d.items():
                card = f["hint_card"]
                optflag = f["optional_flag"]
                if f["group"]:
                    # members of a oneof: pydantic declares them Optional by design, and a wrapper member is Optional in
                    # every variant - not a structural difference
                    card, optflag = "single", False
                norm[n] = (f["name"], f["proto_type"], card, f["group"], f["wraps"], optflag, tuple(f["map_types"] or ()),
                           tuple(e if e[0] != "class" else ("class", e[1].split(".")[-1]) for e in f["elems"]))
            desc[mk] = ("message", norm)
    return desc, class_by_marker, by_class_marker


SERVICE_PROTO = {
    "svc.proto": '''syntax = "proto3";
package svc;
import "google/protobuf/empty.proto";
import "google/protobuf/timestamp.proto";
message Req { int32 a = 1; optional string s = 2; map<string, int64> m = 3; oneof o { int32 x = 4; Rep y = 5; } int32 mk20001 = 20001; }
message Rep { repeated Req rs = 1; google.protobuf.Timestamp t = 2; int32 mk20002 = 20002; }
service AllKinds {
  rpc UnaryUnary (Req) returns (Rep);
  rpc UnaryStream (Req) returns (stream Rep);
  rpc StreamUnary (stream Req) returns (Rep);
  rpc StreamStream (stream Req) returns (stream Rep);
  rpc EmptyIn (google.protobuf.Empty) returns (stream google.protobuf.Timestamp);
  rpc import (stream google.protobuf.Empty) returns (google.protobuf.Empty);
  rpc OldWay (Req) returns (Rep) { option deprecated = true; }
}
''',
}


def same_output(a, b) -> bool:
    """Two outputs (bytes, JSON text, dict, snapshot) are the same; in JSON texts and dicts a number is a number: a
    configuration that coerces the int a caller put into a float field (2 -> 2.0) emits the same JSON value."""
    import json as _json

    if isinstance(a, str) and isinstance(b, str) and a != b:
        try:
            return same_output(_json.loads(a), _json.loads(b))
        except ValueError:
            return False
    if isinstance(a, bool) or isinstance(b, bool):
        return type(a) is type(b) and a == b
    if isinstance(a, (int, float)) and isinstance(b, (int, float)):
        return a == b or (a != a and b != b)
    if isinstance(a, dict) and isinstance(b, dict):
        return a.keys() == b.keys() and all(same_output(v, b[k]) for k, v in a.items())
    if isinstance(a, (list, tuple)) and isinstance(b, (list, tuple)):
        return len(a) == len(b) and all(same_output(x, y) for x, y in zip(a, b))
    return type(a) is type(b) and repr(a) == repr(b)


def targets(ctx):
    def run_variants(files, vseeds, want_features=None):
        fails = []
        compiled = []
        try:
            base = gen.compile_files(files, tag="c18_")
            compiled.append(base)
            if base.protoc_rejected:
                return None, "protoc rejects"
            results = {}
            for opts in VARIANTS:
                c = base if opts == () else gen.compile_files(files, opts=opts, tag="c18_")
                if c is not base:
                    compiled.append(c)
                vname = "+".join(opts) or "default"
                found = validate(c) if "pydantic_dataclasses" not in opts else validate_pydantic(c)
                for cl, where, d in found:
                    fails.append(Failure(cl, f"{vname}|{cl}|{where}", f"variant {vname}: {d}"))
                if c.rc == 0 and not c.import_errors:
                    results[opts] = c
            if () not in results:
                return fails, None
            d0, cbm0, bcm0 = structure(results[()], False)
            s0 = service_description(results[()], bcm0)
            schema = Schema(base.fds)
            fulls = {}
            for full, mi in schema.messages.items():
                for fi in mi.fields:
                    if fi.number > 20000 and fi.name.startswith("mk"):
                        fulls[fi.number] = full
            for opts, c in results.items():
                if opts == ():
                    continue
                vname = "+".join(opts)
                pyd = "pydantic_dataclasses" in opts
                d1, cbm1, bcm1 = structure(c, pyd)
                if set(d1) != set(d0):
                    fails.append(Failure("variant_class_set_differs", f"{vname}|variant_class_set_differs", f"markers only in default {sorted(set(d0) - set(d1))}, only in variant {sorted(set(d1) - set(d0))}"))
                for mk in sorted(set(d0) & set(d1)):
                    if d0[mk] != d1[mk]:
                        a, b = d0[mk], d1[mk]
                        diff = a[0] if a[0] != b[0] else ("enum" if a[0] == "enum" else ",".join(str(n) for n in sorted(set(a[1]) | set(b[1])) if a[1].get(n) != b[1].get(n)))
                        kinds = ""
                        if a[0] == "message" and b[0] == "message":
                            bad = [n for n in sorted(set(a[1]) | set(b[1])) if a[1].get(n) != b[1].get(n)]
                            kinds = ",".join(sorted({":".join(str(x) for x in (a[1].get(n) or b[1].get(n))[1:3]) for n in bad}))
                        fails.append(Failure("variant_structure_differs", f"{vname}|variant_structure_differs|{kinds or a[0]}", f"{fulls.get(mk, mk)}: default {a!r:.300} variant {b!r:.300}"))
                s1 = service_description(c, bcm1)
                wrong_lib = foreign_library_types(c, pyd)
                if wrong_lib:
                    fails.append(Failure("service_type_from_other_library", f"{vname}|service_type_from_other_library", f"{wrong_lib!r:.400}"))
                if s1 != s0:
                    bad = sorted(str(k) for k in set(s0) | set(s1) if s0.get(k) != s1.get(k))
                    fails.append(Failure("variant_service_description_differs", f"{vname}|variant_service_description_differs", f"{bad}: default {[s0.get(k) for k in s0 if str(k) in bad]!r:.300} variant {[s1.get(k) for k in s1 if str(k) in bad]!r:.300}"))
                # values
                for vs in vseeds:
                    rng = random.Random(vs)
                    # enum values are handed over as members or as bare numbers (both are accepted input)
                    adapter = BPAdapter(schema, enum_as="int" if rng.randrange(2) else "member", empty_via="fresh" if rng.randrange(3) == 0 else "parse")
                    marks = sorted(m for m in fulls if m in cbm0 and m in cbm1)
                    if not marks:
                        break
                    mk = marks[rng.randrange(len(marks))]
                    full = fulls[mk]
                    mi = schema.msg(full)
                    tree = simple_tree(schema, full, rng)
                    try:
                        m0 = adapter.build(cbm0[mk], mi, tree)
                        b0, j0 = bytes(m0), m0.to_json()
                    except Exception:  # noqa: BLE001 - the default variant does not accept this tree: out of domain
                        continue
                    try:
                        m1 = adapter.build(cbm1[mk], mi, tree)
                        b1, j1 = bytes(m1), m1.to_json()
                    except Exception as e:  # noqa: BLE001
                        kinds = ",".join(sorted({fi.kind for fi in mi.fields if fi.name in tree}))
                        fails.append(Failure("variant_rejects_value", f"{vname}|variant_rejects_value|{type(e).__name__}|{_culprit_kind(adapter, cbm1[mk], mi, tree)}", f"{full} tree={tree!r:.300}: {e}"[:600]))
                        continue
                    if b1 != b0:
                        fails.append(Failure("variant_bytes_differ", f"{vname}|variant_bytes_differ|{_culprit_kind2(adapter, cbm0[mk], cbm1[mk], mi, tree, 'bytes')}", f"{full} tree={tree!r:.300}: {b0.hex()[:120]} vs {b1.hex()[:120]}"))
                    if not same_output(j0, j1):
                        fails.append(Failure("variant_json_differs", f"{vname}|variant_json_differs|{_culprit_kind2(adapter, cbm0[mk], cbm1[mk], mi, tree, 'json')}", f"{full} tree={tree!r:.300}: {j0[:160]} vs {j1[:160]}"))
            return fails, results
        finally:
            for c in compiled:
                c.cleanup()

    def _culprit_kind(adapter, cls, mi, tree):
        bad = []
        for fi in mi.fields:
            if fi.name in tree:
                try:
                    bytes(adapter.build(cls, mi, {fi.name: tree[fi.name]}))
                except Exception:  # noqa: BLE001
                    bad.append(fi.kind)
        return ",".join(sorted(set(bad))) or "combo"

    def _culprit_kind2(adapter, c0, c1, mi, tree, what):
        bad = []
        for fi in mi.fields:
            if fi.name in tree:
                try:
                    a, b = adapter.build(c0, mi, {fi.name: tree[fi.name]}), adapter.build(c1, mi, {fi.name: tree[fi.name]})
                    if (bytes(a) != bytes(b)) if what == "bytes" else (a.to_json() != b.to_json()):
                        bad.append(fi.kind)
                except Exception:  # noqa: BLE001
                    bad.append(fi.kind + "!")
        return ",".join(sorted(set(bad))) or "combo"

    def validate_pydantic(c):
        """C03 validation with the documented pydantic deviation (oneof members declared Optional)."""
        found = validate(c)
        out = []
        for cl, where, d in found:
            if where.startswith("oneof:") and cl in ("field_cardinality", "field_optional_flag"):
                continue
            out.append((cl, where, d))
        return out

    def grammar_ev(case):
        files = render(case["ast"])
        fails, results = run_variants(files, case["vseeds"])
        if fails is None:
            return Eval(discard="protoc rejects")
        feats = features(case["ast"])
        cs = any(me["cs"] for f in case["ast"]["files"] for s in f["services"] for me in s["methods"])
        nontrivial = cs or {"optional", "map", "cross_package"} <= feats
        return Eval(fails, weight=len(VARIANTS), nontrivial_count=len(VARIANTS) if nontrivial else 0,
                    labels=[f"feat:{x}" for x in sorted(feats)] + [f"client_streaming:{cs}"])

    _IMP = 'import "google/protobuf/timestamp.proto";\nimport "google/protobuf/duration.proto";\n'
    # one package per shadowing field name (so that each name has a verdict of its own)
    SHADOW_PROTO = {
        "sh_datetime.proto": 'syntax = "proto3";\npackage sh_datetime;\n' + _IMP + "message Shadow { google.protobuf.Timestamp datetime = 1; google.protobuf.Timestamp other = 2; int32 mk20001 = 20001; }\n",
        "sh_timedelta.proto": 'syntax = "proto3";\npackage sh_timedelta;\n' + _IMP + "message Shadow { optional google.protobuf.Duration timedelta = 3; google.protobuf.Duration other = 2; int32 mk20002 = 20002; }\n",
        "sh_list.proto": 'syntax = "proto3";\npackage sh_list;\nmessage Shadow { repeated int32 list = 4; repeated int32 more = 5; int32 mk20003 = 20003; }\n',
        "sh_dict.proto": 'syntax = "proto3";\npackage sh_dict;\nmessage Shadow { map<int32, int32> dict = 6; map<int32, int32> d2 = 7; int32 mk20004 = 20004; }\n',
    }

    from ._shapes import ALIAS_PROBE, SINGLE_CONSTRUCT_NO_ALIAS as SINGLE_CONSTRUCT

    SHADOW_PROTO["sh_child_package_alias.proto"] = ALIAS_PROBE  # (several files)

    def fixed_cases():
        yield {"fixed": "all_cardinalities_service", "vseeds": [1, 2, 3, 4, 5, 6]}
        yield {"fixed": "single_construct_packages", "vseeds": [11, 12, 13, 14, 15, 16, 17, 18, 19, 20, 21, 22]}
        yield {"fixed": "probe_field_named_like_annotation_type", "vseeds": [1]}

    def fixed_ev(case):
        if case["fixed"].startswith("probe_"):
            allf = []
            for fname, text in SHADOW_PROTO.items():
                fails, results = run_variants(text if isinstance(text, dict) else {fname: text}, case["vseeds"])
                for f in fails or []:
                    f.sig = f"probe|field_named_like_annotation_type|{fname[3:-6]}|" + f.sig
                allf += fails or []
            return Eval(allf, weight=len(VARIANTS) * len(SHADOW_PROTO), nontrivial_count=len(VARIANTS) * len(SHADOW_PROTO), labels=["probe"])
        fails, results = run_variants(SINGLE_CONSTRUCT if case["fixed"] == "single_construct_packages" else SERVICE_PROTO, case["vseeds"])
        return Eval(fails, weight=len(VARIANTS), nontrivial_count=len(VARIANTS), labels=["fixed:" + case["fixed"]])

    # ---- the kitchen-sink corpus compiled under every option combination: Hypothesis value trees, same bytes / JSON
    def corpus_variant_ev(case):
        import betterproto

        from ..engine import Guarded, guard
        from ..values import norm, snap_bp
        from . import _common as cm
        from ._corpus import corpus

        name, tree, opts = case["msg"], case["tree"], tuple(case["opts"])
        c0, c1 = corpus(), corpus(opts=opts)
        schema = c0.schema
        mi = schema.msg(f"ks.{name}")
        adapter = BPAdapter(schema, enum_as=case.get("enum_as", "member"), empty_via=case.get("empty_via", "parse"))
        vname = "+".join(opts)

        def observe(c, t):
            cls = c.bp(name)
            m = guard("build", adapter.build, cls, mi, t, case.get("route", "kwargs"))
            b = guard("bytes", bytes, m)
            out = {"bytes": b, "json": guard("to_json", m.to_json), "snake": guard("to_dict_snake", m.to_dict, betterproto.Casing.SNAKE)}
            m2 = guard("parse", cls().parse, b)
            out["decoded"] = norm(schema, mi, guard("snapshot", snap_bp, schema, mi, m2))
            m3 = guard("from_json", cls().from_json, out["json"])
            out["from_json"] = norm(schema, mi, guard("snapshot_json", snap_bp, schema, mi, m3))
            return out

        def diff(t):
            try:
                a = observe(c0, t)
            except Guarded:
                return None  # the default configuration does not accept this value: out of C18's domain
            try:
                b = observe(c1, t)
            except Guarded as g:
                return [(f"variant_raises_{g.where}_{type(g.exc).__name__}", str(g)[:300])]
            return [(f"variant_{k}_differs", f"default={a[k]!r:.200} variant={b[k]!r:.200}") for k in a if not same_output(a[k], b[k])]

        found = diff(tree)
        if found is None:
            return Eval(discard="default configuration rejects the value")
        fails = []
        for cl, d in found:
            def fails_one(mi_, single, cl=cl):
                if mi_.full_name != mi.full_name:
                    return False
                r = diff(single)
                return bool(r) and any(x == cl for x, _ in r)

            for w in cm.culprits(schema, mi, tree, fails_one):
                fails.append(Failure(cl, f"corpus|{vname}|{cl}|{w}", f"msg={name} tree={tree!r:.400} :: {d}"))
        return Eval(fails, nontrivial=bool(tree), labels=[f"variant:{vname}", f"msg:{name}", f"enum_as:{case.get('enum_as', 'member')}"])

    from . import _common as _cm

    @st.composite
    def corpus_variant_strat(draw):
        case = dict(draw(_cm.msg_tree_strategy()))
        case["opts"] = list(draw(st.sampled_from(VARIANTS[1:] + [VARIANTS[3], VARIANTS[5]])))
        case["enum_as"] = draw(st.sampled_from(["member", "int"]))
        case["empty_via"] = draw(st.sampled_from(["parse", "parse", "fresh"]))
        case["route"] = draw(st.sampled_from(["kwargs", "kwargs", "setattr"]))
        return case

    strat = st.tuples(schema_ast(max_packages=2), st.lists(st.integers(0, 2**20), min_size=3, max_size=3)).map(lambda t: {"ast": t[0], "vseeds": t[1]})
    from . import _wkt

    def fresh_cases():
        """every plain / optional / oneof singular message-typed field of the corpus set to a FRESHLY constructed, empty
        object of its class (no parse trick), alone, x option set x route: whatever the default output makes of such an
        object (present for a type without fields, absent otherwise), every option set must make the same of it"""
        from . import _common as cm
        from ._corpus import corpus

        schema = corpus().schema
        for name in cm.TOP_MESSAGES:
            for fi in schema.msg(f"ks.{name}").fields:
                if fi.card in ("single", "optional") and fi.type == "message" and fi.wkt is None:
                    for opts in VARIANTS[1:]:
                        for route in ("kwargs", "setattr"):
                            yield {"msg": name, "tree": {fi.name: {}}, "opts": list(opts), "empty_via": "fresh", "route": route}

    return [
        Target("fresh_empty_submessage_x_options", corpus_variant_ev, cases=fresh_cases, exhaustive=True, shard_cases=False),
        Target("corpus_values_x_options", corpus_variant_ev, strategy=corpus_variant_strat(), quick=300, thorough=5000, time_quick=80),
        Target("all_cardinalities_service_x_options", fixed_ev, cases=fixed_cases, exhaustive=True, shard_cases=False),
        Target("grammar_schemas_x_options", grammar_ev, strategy=strat, quick=2, thorough=30, time_quick=150, time_thorough=1500, pin_budget=8, pin_sigs=1),
        _wkt.target("C18"),
    ]
