"""First use of a message class (and of the module-level helpers) by two threads at once, under every single
preemption point (vf/tsched.py owns the interleaving at line granularity; every case runs in a pristine interpreter
forked from a zygote that has imported everything and used nothing: vf/fresh.py).

What a thread gets back must be what the same call gives sequentially - whatever class-level or module-level table is
built lazily on first use must never be seen half-built by a second thread."""
from __future__ import annotations

import os

SMALL_TREES = {
    "Leaf": {"i": 5, "s": "x"},
    "Names": {"address_line_1": 5, "x_y_z": "q", "sha_256": 7, "plain_name": 1, "http_status": [1, 2], "ipv4_address": [["k", 2]]},
    "Solo": {"s_text": "t", "s_leaf": {"i": 1}, "s_num": 0},
    "Tags": None,  # filled below from the schema (one value per field)
    "Words": {"w": 1, "ow": 0, "rw": [1, 2, -5], "mw": [["a", 2]], "pw": 3, "miw": [[-1, 1]]},
}
GENERIC = [f"{op}:{cls}" for cls in ("Leaf", "Names", "Solo", "Words") for op in ("parse", "from_dict", "bytes", "to_dict")
           if not (cls == "Words" and op == "from_dict")]
SCENARIOS = GENERIC + ["parse_unknown", "tiny_oneof", "tiny_from_dict", "tiny_parse", "parse_small", "from_dict_names", "from_json_names", "bytes_small", "to_dict_small", "oneof_history", "varints_small",
             "parse_vs_from_dict", "maps_parse", "enum_lookups", "pickle_copy", "parse_wide", "words_parse"]

_C = {}


def _tiny_classes():
    """Hand-written classes small enough for every preemption point to be swept in the quick tier (defined, never used,
    in the zygote)."""
    import dataclasses
    from typing import Dict, List

    import betterproto

    if "Tiny" not in _C:
        _C["Tiny"] = dataclasses.make_dataclass("Tiny", [("a", int, betterproto.int32_field(1, group="g")), ("b", str, betterproto.string_field(2, group="g")),
                                                         ("line_1", int, betterproto.int32_field(3)), ("tags", List[str], betterproto.string_field(4)),
                                                         ("m", Dict[str, int], betterproto.map_field(5, "string", "sint32"))],
                                                bases=(betterproto.Message,), eq=False, repr=False)
    return _C["Tiny"]


def fresh_prepare():
    """Zygote: compile + import the corpus and every betterproto module; touch no class."""
    import importlib

    from ._corpus import corpus

    _C["c"] = corpus()
    _tiny_classes()
    for m in ("betterproto.casing", "betterproto.enum", "betterproto.utils", "betterproto.lib.google.protobuf", "dateutil.parser"):
        try:
            importlib.import_module(m)
        except Exception:  # noqa: BLE001
            pass


TREE_WIDE = {"scalars": {"f_int32": -5, "f_string": "s", "f_color": 2, "f_sint64": -64, "f_leaf": {"i": 1}},
             "repeats": {"r_int32": [1, 2, 300], "r_string": ["a", ""], "r_leaf": [{"i": 2}, {}], "r_color": [1, -1]},
             "maps": {"m_int32_int32": [[1, 2]], "m_string_leaf": [["k", {"s": "v"}]], "m_sint32_float": [[-1, 1.5]], "m_fixed32_color": [[3, 2]],
                      "m_sfixed32_sint64": [[-4, -8192]], "m_string_ts": [["t", 1500000]]},
             "oneofs": {"a_string": "x", "b_sint64": -2, "c_ts": 1000000},
             "optionals": {"o_int32": 0, "o_string": "", "o_leaf": {}},
             "wrappers": {"w_int32": 0, "w_string": "w"},
             "times": {"ts": -1500000, "dur": -500000, "r_ts": [1]},
             "rec": {"rec": {"i32": 1, "kids": [{"i32": 2}]}, "m": [["k", {"i32": 3}]], "ostr": "o"}}
TREE_SMALL = {"bag": {"nums": [1, -2, 300], "tags": [["k", 2]], "leaves": [{"i": 1}, {}], "leaf": {"s": "x"}, "label": "l", "when": 1500000, "span": -500000,
                      "wrapped": 0, "opt": 0, "color": 2}, "n": -7, "shelf": [[1, {"label": "a"}], [-2, {"nums": [5]}]]}
TREE_WORDS = {"w": 1, "ow": 0, "rw": [1, 2, -5], "mw": [["a", 2]], "pw": 3, "miw": [[-1, 1]], "k": 2, "rk": [1, 5], "mk": [["x", 4]]}
TREE_MAPS = {"m_int32_int32": [[1, -2]], "m_int64_string": [[-3, "x"]], "m_uint32_bytes": [[4, b"\x00"]], "m_uint64_double": [[5, 2.5]], "m_sint32_float": [[-6, 0.5]],
             "m_sint64_bool": [[-7, True]], "m_fixed32_color": [[8, 1]], "m_fixed64_leaf": [[9, {"i": 1}]], "m_sfixed32_sint64": [[-10, -64]],
             "m_sfixed64_uint64": [[-11, 12]], "m_bool_string": [[True, "t"]], "m_string_int64": [["k", -13]], "m_string_leaf": [["k", {"s": "v"}]],
             "m_string_plain": [["k", -1]], "m_string_ts": [["k", 1]], "m_string_dur": [["k", -1]], "m_int32_rec": [[1, {"i32": 1}]], "m_string_color": [["k", 2]]}


def _scenario(name):
    """-> (list of thunks - one per thread -, judge(result) -> problem text or None)"""
    import json

    import betterproto

    from .. import wire
    from ..schema_info import Schema
    from ..values import BPAdapter, norm, snap_bp, snap_ref, to_ref

    c = _C["c"]
    schema = getattr(c, "schema", None) or Schema(c.ref.fds)
    adapter = BPAdapter(schema)

    def snap(msgname, m):
        mi = schema.msg(f"ks.{msgname}")
        return norm(schema, mi, snap_bp(schema, mi, m))

    def want(msgname, tree):
        return norm(schema, schema.msg(f"ks.{msgname}"), tree)

    def ref_bytes(msgname, tree):
        return to_ref(schema, c.ref, f"ks.{msgname}", tree).SerializeToString(deterministic=True)

    def ref_view(msgname, b):
        mi = schema.msg(f"ks.{msgname}")
        return norm(schema, mi, snap_ref(schema, mi, c.rf(msgname).FromString(b)))

    if ":" in name:
        from google.protobuf import json_format

        op, msg = name.split(":")
        tree = SMALL_TREES[msg]
        if op == "parse":
            data = ref_bytes(msg, tree)
            f = lambda: c.bp(msg)().parse(data)  # noqa: E731
            return [f, f], lambda m: None if snap(msg, m) == want(msg, tree) else f"decoded {snap(msg, m)!r:.300}, want {want(msg, tree)!r:.300}"
        if op == "from_dict":
            d = json_format.MessageToDict(to_ref(schema, c.ref, f"ks.{msg}", tree))
            f = lambda: c.bp(msg)().from_dict(d)  # noqa: E731
            return [f, f], lambda m: None if snap(msg, m) == want(msg, tree) else f"loaded {snap(msg, m)!r:.300} from {d!r:.200}, want {want(msg, tree)!r:.300}"
        build = lambda: adapter.build(c.bp(msg), schema.msg("ks." + msg), tree)  # noqa: E731
        if op == "bytes":
            f = lambda: bytes(build())  # noqa: E731
            return [f, f], lambda b: None if ref_view(msg, b) == want(msg, tree) else f"reference reads {ref_view(msg, b)!r:.300}, want {want(msg, tree)!r:.300}"

        def judge_dict(d):
            m = c.bp(msg)().from_dict(json.loads(json.dumps(d)))
            return None if snap(msg, m) == want(msg, tree) else f"to_dict gave {d!r:.300}"

        f = lambda: build().to_dict()  # noqa: E731
        return [f, f], judge_dict
    if name in ("parse_wide", "maps_parse", "parse_small", "words_parse"):
        msg, tree = {"parse_wide": ("Mixed", TREE_WIDE), "maps_parse": ("Maps", TREE_MAPS), "parse_small": ("Box", TREE_SMALL), "words_parse": ("Words", TREE_WORDS)}[name]
        data = ref_bytes(msg, tree)
        op = lambda: c.bp(msg)().parse(data)  # noqa: E731
        return [op, op], lambda m: None if snap(msg, m) == want(msg, tree) else f"decoded {snap(msg, m)!r:.300}, want {want(msg, tree)!r:.300}"
    if name in ("from_dict_names", "from_json_names"):
        from betterproto.casing import camel_case

        vals = {"address_line_1": 5, "x_y_z": "q", "sha_256": "7", "plain_name": 1, "http_status": [1, 2], "ipv4_address": {"k": 2}}
        d = {camel_case(k): v for k, v in vals.items()}
        tree = {"address_line_1": 5, "x_y_z": "q", "sha_256": 7, "plain_name": 1, "http_status": [1, 2], "ipv4_address": [["k", 2]]}
        if name == "from_dict_names":
            op = lambda: c.bp("Names")().from_dict(d)  # noqa: E731
        else:
            text = json.dumps(d)
            op = lambda: c.bp("Names")().from_json(text)  # noqa: E731
        return [op, op], lambda m: None if snap("Names", m) == want("Names", tree) else f"loaded {snap('Names', m)!r:.300} from {d!r}, want {want('Names', tree)!r:.300}"
    if name == "parse_vs_from_dict":
        data = ref_bytes("Names", {"address_line_1": 5, "x_y_z": "q"})
        from betterproto.casing import camel_case

        d = {camel_case("address_line_1"): 5, camel_case("x_y_z"): "q"}
        tree = {"address_line_1": 5, "x_y_z": "q"}
        return [lambda: c.bp("Names")().parse(data), lambda: c.bp("Names")().from_dict(d)], \
            lambda m: None if snap("Names", m) == want("Names", tree) else f"got {snap('Names', m)!r:.300}, want {want('Names', tree)!r:.300}"
    if name in ("bytes_small", "to_dict_small", "pickle_copy"):
        TREE_WIDE_, msgn = TREE_SMALL, "Box"

        def build():
            return adapter.build(c.bp(msgn), schema.msg("ks." + msgn), TREE_WIDE_)

        if name == "bytes_small":
            return [lambda: bytes(build()), lambda: bytes(build())], \
                lambda b: None if ref_view(msgn, b) == want(msgn, TREE_WIDE_) else f"reference reads {ref_view(msgn, b)!r:.300}, want {want(msgn, TREE_WIDE_)!r:.300}"
        if name == "to_dict_small":
            def judge(d):
                m = c.bp(msgn)().from_dict(json.loads(json.dumps(d)))
                return None if snap(msgn, m) == want(msgn, TREE_WIDE_) else f"to_dict gave {d!r:.300}"

            return [lambda: build().to_dict(), lambda: build().to_dict()], judge
        import copy
        import pickle

        return [lambda: pickle.loads(pickle.dumps(build())), lambda: copy.deepcopy(build())], \
            lambda m: None if snap(msgn, m) == want(msgn, TREE_WIDE_) else f"copy holds {snap(msgn, m)!r:.300}"
    if name == "oneof_history":
        def hist(first, second):
            def run():
                O = c.bp("Oneofs")
                m = O()
                setattr(m, first[0], first[1])
                setattr(m, second[0], second[1])
                sel = betterproto.which_one_of(m, "g1")
                return (sel[0], sel[1], bytes(m), m.to_dict())

            return run

        def judge(r):
            name_, val, b, d = r
            rv = c.rf("Oneofs").FromString(b)
            if rv.WhichOneof("g1") != name_ or name_ not in ("a_string", "a_int32"):
                return f"which_one_of says {name_!r}, reference {rv.WhichOneof('g1')!r}, bytes {b.hex()}"
            if len([k for k in d if k in ("aInt32", "aString", "aBool")]) != 1:
                return f"to_dict {d!r}"
            return None

        return [hist(("a_int32", 5), ("a_string", "x")), hist(("a_bool", True), ("a_int32", 0))], judge
    if name in ("tiny_oneof", "tiny_from_dict", "tiny_parse"):
        Tiny = _tiny_classes()
        if name == "tiny_oneof":
            def hist(first, second):
                def run():
                    m = Tiny()
                    setattr(m, first[0], first[1])
                    setattr(m, second[0], second[1])
                    return (betterproto.which_one_of(m, "g"), bytes(m), m.to_dict())

                return run

            return [hist(("a", 5), ("b", "x")), hist(("b", "y"), ("a", 0))], \
                lambda r: None if r in ((("b", "x"), b"\x12\x01x", {"b": "x"}), (("a", 0), b"\x08\x00", {"a": 0})) else f"got {r!r}"
        if name == "tiny_from_dict":
            d = {"a": 1, "line1": 7, "tags": ["t"], "m": {"k": -3}}
            f = lambda: Tiny().from_dict(d)  # noqa: E731
            return [f, f], lambda m: None if (m.a, m.line_1, m.tags, m.m, bytes(m)) == (1, 7, ["t"], {"k": -3}, b"\x08\x01\x18\x07\x22\x01t\x2a\x05\x0a\x01k\x10\x05") else f"got {m!r} {bytes(m).hex()}"
        data = b"\x12\x01x\x18\x07\x22\x01t\x2a\x05\x0a\x01k\x10\x05"
        f = lambda: Tiny().parse(data)  # noqa: E731
        return [f, f], lambda m: None if (betterproto.which_one_of(m, "g"), m.line_1, m.tags, m.m) == (("b", "x"), 7, ["t"], {"k": -3}) else f"got {m!r}"
    if name == "parse_unknown":
        # records the schema does not know, with multi-byte varints in tags, lengths and values: re-emitted byte for byte
        data_a = wire.tag(2000, 0) + wire.enc_varint(300) + wire.tag(1, 0) + wire.enc_varint(5) + wire.tag(70000, 2) + wire.enc_varint(3) + b"abc" + wire.tag(2001, 0) + wire.enc_varint(2**40 + 7)
        data_b = wire.tag(3000, 0) + wire.enc_varint(278) + wire.tag(2, 2) + wire.enc_varint(1) + b"s" + wire.tag(90000, 0) + wire.enc_varint(2**63) + wire.tag(3001, 0) + wire.enc_varint(16384)
        mk = lambda d: (lambda: bytes(c.bp("Leaf")().parse(d)))  # noqa: E731
        exp = {0: data_a, 1: data_b}
        return [mk(data_a), mk(data_b)], lambda b: None if b in (wire.tag(1, 0) + wire.enc_varint(5) + data_a.replace(wire.tag(1, 0) + wire.enc_varint(5), b"", 1),
                                                                   wire.tag(2, 2) + wire.enc_varint(1) + b"s" + data_b.replace(wire.tag(2, 2) + wire.enc_varint(1) + b"s", b"", 1)) else f"re-encoded as {b.hex()}"
    if name == "varints_small":
        vals = [0, 1, 127, 128, 300, 16383, 16384, -1, 2**63]
        op = lambda: ([betterproto.encode_varint(v) for v in vals], [betterproto.size_varint(v) for v in vals], [betterproto.decode_varint(wire.enc_varint(v), 0) for v in vals])  # noqa: E731
        exp = ([wire.enc_varint(v) for v in vals], [len(wire.enc_varint(v)) for v in vals], [(v % 2**64, len(wire.enc_varint(v))) for v in vals])
        return [op, op], lambda r: None if (r[0], r[1], [(a & (2**64 - 1), b) for a, b in r[2]]) == exp else f"got {r!r:.300}"
    if name == "enum_lookups":
        def op():
            E = c.bp("Color")
            a = E(1)
            return (a is E.try_value(1), a.name, int(a), E.try_value(-1234) == -1234, [int(x) for x in E], E.from_string(a.name) is a, E["%s" % a.name] is a)

        return [op, op], lambda r: None if (r[0], r[2], r[3], r[5], r[6]) == (True, 1, True, True, True) else f"got {r!r}"
    raise AssertionError(name)


def evaluate_case(case):
    """Runs in a pristine forked interpreter. -> {"problems": [...], "steps": N, "switches": k, "hang": bool}"""
    from .. import env
    from ..tsched import LineSched

    fns, judge = _scenario(case["scenario"])
    sched = LineSched(case.get("preempt", []), [os.path.join(env.SRC, "betterproto")])
    res = sched.run(fns, timeout=40.0)
    if res is None:
        return {"problems": [], "steps": sched.step, "switches": sched.switches, "hang": True}
    problems = []
    for i, (kind, val) in enumerate(res):
        if kind == "exc":
            problems.append(f"thread {i} raised {val}")
        else:
            try:
                p = judge(val)
            except Exception as e:  # noqa: BLE001
                p = f"result of thread {i} unusable: {type(e).__name__}: {e}"
            if p:
                problems.append(f"thread {i}: {p}")
    # afterwards, sequentially (tables are complete now - or permanently wrong)
    try:
        for i, fn in enumerate(fns):
            p = judge(fn())
            if p:
                problems.append(f"sequential call after the threads ({i}): {p}")
    except Exception as e:  # noqa: BLE001
        problems.append(f"sequential call after the threads raised {type(e).__name__}: {e}")
    return {"problems": problems, "steps": sched.step, "switches": sched.switches, "hang": False}


def target(ctx, scenarios, quick_points=40):
    from hypothesis import strategies as st

    from ..engine import Eval, Failure, Target
    from ..fresh import fresh_call

    def ev(case):
        r = fresh_call("vf.props._thr:evaluate_case", case)
        if r["hang"]:
            return Eval(discard="threads did not finish under this schedule (a suspended thread holds a lock)")
        fails = []
        for p in r["problems"][:1]:
            kind = "raises" if "raised" in p else "wrong_result"
            fails.append(Failure("first_use_by_two_threads", f"threads|{case['scenario']}|{kind}", f"case={case!r} :: {'; '.join(r['problems'])[:700]}"))
        return Eval(fails, nontrivial=r["switches"] > 0, labels=[f"thr:{case['scenario']}", f"thr_switches:{r['switches']}"])

    def cases():
        for s in scenarios:
            total = fresh_call("vf.props._thr:evaluate_case", {"scenario": s, "preempt": []})["steps"]
            n0 = max(1, total // 2)  # (both threads run the same kind of work: the first one's share)
            # thorough: every line of small scenarios, 1500 points of big ones; quick: `quick_points` per scenario, the
            # offset of the comb moves with VERIF_SEED
            points = (n0 if n0 <= 3000 else 1500) if ctx.thorough else (min(n0, 200) if s.startswith("tiny_") else quick_points)
            stride = max(1, n0 // points)
            for k in range(1 + (ctx.seed % stride), n0 + 1, stride):
                yield {"scenario": s, "preempt": [k]}

    multi = st.fixed_dictionaries({"scenario": st.sampled_from(scenarios),
                                   "preempt": st.lists(st.integers(1, 6000), min_size=2, max_size=4, unique=True).map(sorted)})
    return [
        Target("first_use_by_two_threads_single_preemption", ev, cases=cases, exhaustive=False, quick=10**6, thorough=10**6,
               rule="two threads use a class (or the varint helpers) for the first time in a pristine interpreter; thread 0 is preempted after its k-th executed library line (k swept over its run), thread 1 runs to the end, thread 0 resumes: both get what the call gives sequentially"),
        Target("first_use_by_two_threads_several_preemptions", ev, strategy=multi, quick=12, thorough=800, time_quick=30),
    ]
