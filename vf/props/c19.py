"""C19 Name mapping is total and safe, and JSON keys map back to their fields."""
from __future__ import annotations

import builtins
import dataclasses
import itertools
import keyword
import os
import re
import subprocess

from hypothesis import strategies as st

from .. import env
from ..engine import Eval, Failure, Target

LEVEL = "exploration"
QUICK_SHARDS = 8
THOROUGH_SHARDS = 16
ALPHABET = "abAB1_"
IDENT = re.compile(r"^[A-Za-z_][A-Za-z0-9_]*$")
RULE = (
    "Exhaustive: every string of length 1..5 (quick) / 1..6 (thorough) over {a,b,A,B,1,_} that is a legal proto "
    "identifier ([A-Za-z_][A-Za-z0-9_]*; legality of a sample batch is confirmed by protoc on every run, of the whole "
    "set in the thorough tier) + all Python keywords, soft keywords and builtins + a corpus of real-world names + "
    "Hypothesis identifiers up to length 30. Oracle: pythonize_field_name / pythonize_method_name / "
    "pythonize_class_name / pythonize_enum_member_name give str.isidentifier() non-keyword names and are idempotent; "
    "on a real message class (public field API) whose field is named pythonize_field_name(n), from_dict({key: v}) sets "
    "that field for key in {camelCase key emitted by to_dict, snake_case key emitted by to_dict, the proto name n}, "
    "also through to_json/from_json; two related names as fields of one message (sibling_field_pairs) survive a round trip in every casing in which their keys differ. Non-trivial = name containing an upper-case letter, digit or underscore."
)
ASSUMPTIONS = ["message classes are built with the public field API; the plugin's own use of these functions is covered by C03"]

REAL_WORLD = [
    "address_line_1", "address_line_2", "ipv4_address", "ipv6Address", "x_y_z", "HTTPStatus", "http2_settings", "sha256sum",
    "user_id", "userID", "UserId", "_private", "trailing_", "double__underscore", "CamelCaseName", "lowercase", "UPPER_CASE",
    "oauth2_token", "s3_bucket", "utf8", "a1b2c3", "B2B", "x", "X", "_", "__", "_1", "a_", "ID", "id", "Id", "iOS_version",
    "field_1_2", "v1beta1", "V1Beta1Spec", "rgb_8bit", "is_3d", "type", "class", "from", "import", "None", "none", "True",
    "list", "dict", "str", "bytes", "self", "cls", "match", "case", "print", "len", "name", "value", "mro",
]


def classes(n: str):
    out = []
    if re.search(r"_\d", n):
        out.append("digit_after_underscore")
    if re.search(r"(^|_)[A-Za-z](_|$)", n):
        out.append("single_letter_word")
    if re.search(r"[A-Z]{2}", n):
        out.append("upper_run")
    if n.startswith("_"):
        out.append("leading_underscore")
    if n.endswith("_"):
        out.append("trailing_underscore")
    if "__" in n:
        out.append("double_underscore")
    if re.search(r"\d[A-Za-z]", n):
        out.append("letter_after_digit")
    if keyword.iskeyword(n) or keyword.issoftkeyword(n) or n in dir(builtins):
        out.append("keywordish")
    return out or ["plain"]


def targets(ctx):
    import betterproto
    from betterproto.compile import naming

    def valid(x):
        return isinstance(x, str) and x.isidentifier() and not keyword.iskeyword(x)

    _cls_cache = {}

    def msg_class(py_field: str):
        c = _cls_cache.get(py_field)
        if c is None:
            c = dataclasses.make_dataclass(
                # the probed field sits between two conventionally named ones (declaration order must not matter)
                "NameProbe", [("aa_first", int, betterproto.int32_field(3)), (py_field, int, betterproto.int32_field(1)), ("zz_other", str, betterproto.string_field(2))],
                bases=(betterproto.Message,), eq=False, repr=False)
            if len(_cls_cache) > 5000:
                _cls_cache.clear()
            _cls_cache[py_field] = c
        return c

    def check_name(n: str):
        """-> list of (clause, where, detail)"""
        out = []
        fns = {
            "field": naming.pythonize_field_name,
            "method": naming.pythonize_method_name,
            "class": naming.pythonize_class_name,
            "enum_member": lambda x: naming.pythonize_enum_member_name(x, "Kind"),
            "enum_member_prefixed": lambda x: naming.pythonize_enum_member_name("KIND_" + x, "Kind"),
        }
        results = {}
        for what, fn in fns.items():
            try:
                r = fn(n)
            except Exception as e:  # noqa: BLE001
                out.append((f"{what}_name_raises", type(e).__name__, f"{n!r}: {e}"))
                continue
            results[what] = r
            if not valid(r):
                why = "keyword" if isinstance(r, str) and keyword.iskeyword(r) else ("empty" if r == "" else "not_identifier")
                out.append((f"{what}_name_invalid", why, f"{n!r} -> {r!r}"))
            elif what in ("field", "method", "class"):
                try:
                    r2 = fn(r)
                    if r2 != r:
                        out.append((f"{what}_name_not_idempotent", "-", f"{n!r} -> {r!r} -> {r2!r}"))
                except Exception as e:  # noqa: BLE001
                    out.append((f"{what}_name_raises", type(e).__name__, f"{r!r}: {e}"))
        py = results.get("field")
        # the attribute names to probe: the one the plugin would generate and - hand-written classes copy proto names as
        # they are (userID, retry__count) - the proto name itself where it is a usable Python attribute name
        attr_names = [("", py)] if py is not None and valid(py) and py not in ("zz_other", "aa_first") else []
        if valid(n) and n != py and n not in ("zz_other", "aa_first") and not (n.startswith("__") and n.endswith("__")) and not n.startswith("_"):
            attr_names.append(("handwritten_", n))
        for mode, py in attr_names:
            try:
                cls = msg_class(py)
                m = cls(**{py: 7})
                for casing_name, casing in (("camel", betterproto.Casing.CAMEL), ("snake", betterproto.Casing.SNAKE)):
                    d = m.to_dict(casing)
                    keys = [k for k in d if k not in ("zzOther", "zz_other", "aaFirst", "aa_first")]
                    if len(keys) != 1:
                        out.append((mode + "to_dict_key_missing", casing_name, f"{n!r}: field {py!r} -> dict {d!r}"))
                        continue
                    key = keys[0]
                    back = cls.from_dict({key: 7})
                    if getattr(back, py) != 7:
                        out.append((mode + "json_key_not_mapped_back", casing_name, f"proto name {n!r}: field {py!r} -> key {key!r} -> dropped by from_dict"))
                    back2 = cls().from_json(m.to_json(casing=casing))
                    if getattr(back2, py) != 7:
                        out.append((mode + "json_text_roundtrip_drops_field", casing_name, f"{n!r}: field {py!r} key {key!r}"))
                    # the python-dict twins of to_dict / from_dict use the same key mapping
                    pd = m.to_pydict(casing)
                    if key not in pd:
                        out.append((mode + "to_pydict_key_differs", casing_name, f"{n!r}: to_dict key {key!r}, to_pydict keys {sorted(pd)}"))
                    back3 = cls().from_pydict(pd)
                    if getattr(back3, py) != 7:
                        out.append((mode + "pydict_key_not_mapped_back", casing_name, f"proto name {n!r}: field {py!r} -> from_pydict(to_pydict()) drops it (keys {sorted(pd)})"))
                back = cls().from_dict({n: 7})
                if getattr(back, py) != 7:
                    out.append((mode + "proto_name_not_mapped", "-", f"from_dict({{{n!r}: 7}}) does not set field {py!r}"))
            except Exception as e:  # noqa: BLE001
                out.append((mode + "message_with_field_raises", type(e).__name__, f"{n!r} -> field {py!r}: {e}"))
        return out

    # ---- sibling fields: two fields of ONE message whose names are related (one is the other's JSON key, the other
    # without its underscores, ...): a round trip in a casing in which their keys differ must restore both
    _pair_cache = {}

    def pair_class(py_a: str, py_b: str):
        k = (py_a, py_b)
        c = _pair_cache.get(k)
        if c is None:
            c = dataclasses.make_dataclass("PairProbe", [(py_a, int, betterproto.int32_field(1)), (py_b, int, betterproto.int32_field(2))],
                                           bases=(betterproto.Message,), eq=False, repr=False)
            if len(_pair_cache) > 3000:
                _pair_cache.clear()
            _pair_cache[k] = c
        return c

    def siblings_of(n: str):
        from betterproto.casing import camel_case, safe_snake_case

        out = []
        try:
            py = naming.pythonize_field_name(n)
            cands = [camel_case(py).rstrip("_"), safe_snake_case(py), n.replace("_", ""), n.lower(), py, re.sub(r"_(\d)", r"\1", n), re.sub(r"(\d+)", r"_\1", n),
                     n[:1].upper() + n[1:], n + "_", "_" + n]
        except Exception:  # noqa: BLE001 - reported by the single-name target
            return out
        for s_ in cands:
            if s_ != n and IDENT.match(s_) and s_ not in out:
                out.append(s_)
        return out

    def check_pair(a: str, b: str):
        """-> list of (clause, where, detail); a, b proto field names of one message"""
        out = []
        try:
            pa, pb = naming.pythonize_field_name(a), naming.pythonize_field_name(b)
        except Exception:  # noqa: BLE001
            return out, False
        if pa == pb or not (valid(pa) and valid(pb)):
            return out, False  # protoc-level / python-level name clash: not two fields
        cls = pair_class(pa, pb)
        used = False
        try:
            m = cls(**{pa: 7, pb: 9})
            for casing_name, casing in (("camel", betterproto.Casing.CAMEL), ("snake", betterproto.Casing.SNAKE)):
                ka = cls(**{pa: 7}).to_dict(casing)
                kb = cls(**{pb: 9}).to_dict(casing)
                if len(ka) != 1 or len(kb) != 1 or set(ka) == set(kb):
                    continue  # the two fields have the same key in this casing: the output itself is ambiguous
                used = True
                d = m.to_dict(casing)
                back = cls().from_dict(d)
                if (getattr(back, pa), getattr(back, pb)) != (7, 9):
                    out.append(("sibling_fields_roundtrip", casing_name, f"fields {a!r} / {b!r} (python {pa!r} / {pb!r}): to_dict -> {d!r} -> from_dict -> {back!r}"))
                back = cls().from_json(m.to_json(casing=casing))
                if (getattr(back, pa), getattr(back, pb)) != (7, 9):
                    out.append(("sibling_fields_json_roundtrip", casing_name, f"fields {a!r} / {b!r}: {m.to_json(casing=casing)} -> {back!r}"))
                pd = m.to_pydict(casing)
                back = cls().from_pydict(pd)
                if (getattr(back, pa), getattr(back, pb)) != (7, 9):
                    out.append(("sibling_fields_pydict_roundtrip", casing_name, f"fields {a!r} / {b!r}: {pd!r} -> {back!r}"))
        except Exception as e:  # noqa: BLE001
            out.append(("message_with_sibling_fields_raises", type(e).__name__, f"{a!r} / {b!r}: {e}"))
        return out, used

    def pair_ev(case):
        fails, seen, nt, n_pairs = [], set(), 0, 0
        for n in case["names"]:
            for s_ in siblings_of(n):
                for a, b in ((n, s_), (s_, n)):
                    found, used = check_pair(a, b)
                    n_pairs += 1
                    nt += 1 if used else 0
                    for clause, where, detail in found:
                        sig = f"{clause}|{where}|{'+'.join(classes(n))}"
                        if sig not in seen:
                            seen.add(sig)
                            fails.append(Failure(clause, sig, detail, case={"names": [n]}))
        return Eval(fails, weight=max(1, n_pairs), nontrivial_count=nt, labels=["sibling_pairs"])

    def batch_ev(case):
        fails, seen, nt = [], set(), 0
        names = case["names"]
        for n in names:
            cl = classes(n)
            if cl != ["plain"]:
                nt += 1
            for clause, where, detail in check_name(n):
                sig = f"{clause}|{where}|{'+'.join(cl)}"
                if sig not in seen:
                    seen.add(sig)
                    fails.append(Failure(clause, sig, detail, case={"names": [n]}))
        return Eval(fails, weight=len(names), nontrivial_count=nt, labels=["batch"])

    max_len = 6 if ctx.thorough else 5

    def all_names():
        for L in range(1, max_len + 1):
            for t in itertools.product(ALPHABET, repeat=L):
                n = "".join(t)
                if IDENT.match(n):
                    yield n

    def exhaustive_cases():
        batch = []
        for n in all_names():
            batch.append(n)
            if len(batch) == 200:
                yield {"names": batch}
                batch = []
        if batch:
            yield {"names": batch}

    def pair_cases():
        lim = 5 if ctx.thorough else 4
        batch = []
        for n in all_names():
            if len(n) > lim:
                break
            batch.append(n)
            if len(batch) == 100:
                yield {"names": batch}
                batch = []
        if batch:
            yield {"names": batch}
        yield {"names": [n for n in REAL_WORLD if IDENT.match(n)] + ["Line_1", "line1", "a_1", "rev_1_0", "rev_10", "top_10", "utf_8", "sha_256"]}

    def corpus_cases():
        kw = sorted(set(keyword.kwlist) | set(keyword.softkwlist) | {b for b in dir(builtins) if IDENT.match(b)})
        for i in range(0, len(kw), 50):
            yield {"names": kw[i:i + 50]}
        yield {"names": [n for n in REAL_WORLD if IDENT.match(n)]}

    # protoc legality probe: the lexical rule is what protoc accepts as a field name
    def protoc_cases():
        names = list(all_names())
        step = 1 if ctx.thorough else max(1, len(names) // 400)
        sample = names[ctx.shard % step::step] if not ctx.thorough else names[ctx.shard::max(1, ctx.nshards)]
        for i in range(0, len(sample), 2000):
            yield {"protoc_names": sample[i:i + 2000]}
        yield {"protoc_names": ["1a", "a-b", "a b", ""], "expect_reject": True}

    def protoc_ev(case):
        names = case["protoc_names"]
        work = env.work_dir()
        d = os.path.join(work, f"c19_{ctx.shard}")
        os.makedirs(d, exist_ok=True)
        if case.get("expect_reject"):
            bad = 0
            for n in names:
                with open(os.path.join(d, "n.proto"), "w") as fh:
                    fh.write(f'syntax = "proto3";\nmessage M {{ int32 {n} = 1; }}\n')
                cp = subprocess.run([env.PY, "-m", "grpc_tools.protoc", f"-I{d}", f"--descriptor_set_out={d}/n.desc", f"{d}/n.proto"],
                                    capture_output=True, text=True, env=env.child_env())
                bad += cp.returncode != 0
            if bad != len(names):
                raise RuntimeError("protoc accepted an identifier outside the lexical rule")
            return Eval([], weight=len(names), nontrivial_count=0, labels=["protoc_rejects"])
        with open(os.path.join(d, "n.proto"), "w") as fh:
            fh.write('syntax = "proto3";\n' + "".join(f"message M{i} {{ int32 {n} = 1; }}\n" for i, n in enumerate(names)))
        cp = subprocess.run([env.PY, "-m", "grpc_tools.protoc", f"-I{d}", f"--descriptor_set_out={d}/n.desc", f"{d}/n.proto"],
                            capture_output=True, text=True, env=env.child_env())
        if cp.returncode != 0:
            raise RuntimeError(f"protoc rejects identifiers the generator considers legal: {cp.stderr[:400]}")
        return Eval([], weight=len(names), nontrivial_count=0, labels=["protoc_accepts"])

    ident = st.from_regex(r"[A-Za-z_][A-Za-z0-9_]{0,29}", fullmatch=True)
    wordy = st.lists(st.sampled_from(["http", "HTTP", "id", "ID", "v", "1", "2", "x", "Y", "url", "Url", "8bit", "_", "__", "a", "B"]),
                     min_size=1, max_size=6).map(lambda ws: "_".join(ws) if len(ws) % 2 else "".join(ws)).filter(lambda s: bool(IDENT.match(s)))
    rand = st.lists(st.one_of(ident, wordy), min_size=1, max_size=20).map(lambda ns: {"names": ns})

    from . import _seq

    return [
        __import__("vf.props._inherit", fromlist=["target"]).target(__import__("vf.props._corpus", fromlist=["corpus"]).corpus()),
        Target("identifiers_exhaustive", batch_ev, cases=exhaustive_cases, exhaustive=True, rule=f"all legal identifiers of length <= {max_len} over {ALPHABET!r}"),
        Target("keywords_builtins_realworld", batch_ev, cases=corpus_cases, exhaustive=True, shard_cases=False),
        Target("sibling_field_pairs", pair_ev, cases=pair_cases, exhaustive=True,
               rule="every identifier (length <= 4 quick / 5 thorough, + real-world names) paired in one message with its derived siblings (its own JSON keys, itself without underscores / lower-cased / capitalised / with the underscore before digits moved): a to_dict -> from_dict, to_json -> from_json, to_pydict -> from_pydict round trip restores both fields in every casing in which their keys differ"),
        Target("protoc_legality_probe", protoc_ev, cases=protoc_cases, exhaustive=True, shard_cases=False),
        Target("identifiers_random", batch_ev, strategy=rand, quick=150, thorough=1500),
        _seq.target("C19"),
        *__import__("vf.props._thr", fromlist=["target"]).target(ctx, ['from_dict_names', 'to_dict:Names', 'tiny_from_dict']),
    ]
