import importlib


def load(pid: str):
    return importlib.import_module(f"vf.props.{pid.lower()}")
