"""Histories over TWO schemas in one pristine interpreter (shared by the value-level properties).

A case is a short sequence of steps (package in {ks, ks_twin}, message, value tree, operation).  ks_twin declares the
same message and field names / numbers as ks with different cardinalities, enum types, value kinds and JSON keys that
collide after casing.  Every step has an oracle that does not depend on the history (reference implementation or a
self round trip), so any failure that appears only after certain earlier steps is state leaking between classes or
between calls: a cache keyed too coarsely, a memo that is never invalidated, a lazily filled table.

The sequence is evaluated in a forked child of a zygote that has imported the generated packages but never used them
(vf/fresh.py), so the verdict is a pure function of the case and the minimal failing history replays as it is.
"""
from __future__ import annotations

import copy
import json
import pickle

from hypothesis import strategies as st

from ..engine import Eval, Failure, Guarded, Target, guard
from ..values import BPAdapter, TreeStrategies, norm, snap_bp, snap_ref, to_ref
from . import _common as cm
from ._corpus import corpus

MESSAGES = {
    "ks": ["Scalars", "Repeats", "Maps", "Times", "Names", "Optionals", "Oneofs", "Leaf"],
    "ks_twin": ["Scalars", "Repeats", "Maps", "Times", "Names", "Leaf"],
}
OPS = ["roundtrip", "parse_ref", "len", "json_self", "json_from_ref", "pickle", "deepcopy", "twice"]
# which property reports which clause (a clause may concern several)
CLAUSE_PROPS = {
    "seq_roundtrip_snapshot": {"C01"}, "seq_roundtrip_eq": {"C01"},
    "seq_bp_to_ref": {"C02"}, "seq_ref_to_bp": {"C02"}, "seq_ref_rejects": {"C02"},
    "seq_len_vs_bytes": {"C09"},
    "seq_json_self": {"C04"}, "seq_json_keys": {"C04", "C19"}, "seq_json_from_ref": {"C05", "C19"},
    "seq_enum_identity": {"C20"},
    "seq_pickle": {"C14"}, "seq_deepcopy": {"C14"},
    "seq_second_call_differs": {"C01", "C09", "C16"},
}
_TIME_PROPS = {"C15"}
FUNC = "vf.props._seq:evaluate_history"


def _corpora():
    return {"ks": corpus(), "ks_twin": corpus(proto="ks_twin.proto", package="ks_twin")}


def fresh_prepare():
    """Runs once in the zygote: compile + import both packages and pre-compute the HARNESS's own view of the classes
    (dataclass fields + typing.get_type_hints - nothing of betterproto's lazily built per-class state is touched)."""
    import betterproto

    from ..values import BPInfo

    for c in _corpora().values():
        for obj in vars(c.mod).values():
            if isinstance(obj, type) and issubclass(obj, betterproto.Message) and obj.__module__ == c.mod.__name__:
                BPInfo.of(obj)
                if "_betterproto_meta" in vars(obj):
                    raise RuntimeError("harness touched betterproto's per-class metadata in the zygote")


def _enum_identity(c, schema, mi, m, out, where=""):
    from ..values import BPInfo

    info = BPInfo.of(type(m))
    for fi in mi.fields:
        leaf = fi.val if fi.card == "map" else fi
        if leaf.type != "enum":
            continue
        E = getattr(c.mod, leaf.enum.split(".")[-1])
        try:
            v = getattr(m, info.pyname(fi))
        except AttributeError:  # unselected oneof member
            continue
        vals = list(v) if fi.card == "repeated" else (list(v.values()) if fi.card == "map" else ([] if v is None else [v]))
        for x in vals:
            try:
                member = E(int(x))
            except Exception:  # noqa: BLE001  (undefined number: no canonical member to compare with)
                continue
            if x is not member:
                out.append(("seq_enum_identity", f"{where}{fi.name}: decoded {x!r} of {type(x).__module__}.{type(x).__qualname__} is not {member!r} of {E.__module__}.{E.__qualname__}"))
                break


def _step(cs, adapters, step):
    """-> list of (clause, detail) for one step."""
    pkg, name, tree, op = step["pkg"], step["msg"], step["tree"], step["op"]
    c = cs[pkg]
    schema = c.schema
    mi = schema.msg(f"{pkg}.{name}")
    cls = c.bp(name)
    adapter = adapters[pkg]
    want = norm(schema, mi, tree)
    out = []
    try:
        if op == "roundtrip":
            m = guard("build", adapter.build, cls, mi, tree)
            b = guard("bytes", bytes, m)
            try:
                r = c.ref.cls(mi.full_name).FromString(b)
                got = norm(schema, mi, snap_ref(schema, mi, r))
                if got != want:
                    out.append(("seq_bp_to_ref", f"reference decodes {got!r:.300}, built from {want!r:.300}; bytes={b.hex()[:200]}"))
            except Exception as e:  # noqa: BLE001
                out.append(("seq_ref_rejects", f"{type(e).__name__}: {e}; bytes={b.hex()[:200]}"))
            m2 = guard("parse", cls().parse, b)
            z = norm(schema, mi, guard("snapshot", snap_bp, schema, mi, m2))
            if z != want:
                out.append(("seq_roundtrip_snapshot", f"decoded {z!r:.300}, built from {want!r:.300}; bytes={b.hex()[:200]}"))
            if guard("eq", lambda: m2 == m) is not True:
                out.append(("seq_roundtrip_eq", "parse(bytes(m)) != m"))
        elif op == "parse_ref":
            rb = to_ref(schema, c.ref, mi.full_name, tree).SerializeToString(deterministic=True)
            m2 = guard("parse", cls().parse, rb)
            z = norm(schema, mi, guard("snapshot", snap_bp, schema, mi, m2))
            if z != want:
                out.append(("seq_ref_to_bp", f"decoded {z!r:.300}, reference encoded {want!r:.300}; bytes={rb.hex()[:200]}"))
            _enum_identity(c, schema, mi, m2, out)
        elif op == "len":
            m = guard("build", adapter.build, cls, mi, tree)
            n = guard("len", len, m)
            b = guard("bytes", bytes, m)
            if n != len(b):
                out.append(("seq_len_vs_bytes", f"len(m)={n} len(bytes(m))={len(b)} bytes={b.hex()[:200]}"))
        elif op == "twice":
            # the same observation twice on one instance, and on a second instance built alike
            m = guard("build", adapter.build, cls, mi, tree)
            b1, n1 = guard("bytes", bytes, m), guard("len", len, m)
            b2, n2 = guard("bytes", bytes, m), guard("len", len, m)
            m_b = guard("build", adapter.build, cls, mi, tree)
            b3 = guard("bytes", bytes, m_b)
            if (b1, n1) != (b2, n2) or b3 != b1:
                out.append(("seq_second_call_differs", f"first={b1.hex()[:120]}/{n1} second={b2.hex()[:120]}/{n2} other instance={b3.hex()[:120]}"))
        elif op == "json_self":
            m = guard("build", adapter.build, cls, mi, tree)
            d = guard("to_dict", m.to_dict)
            keys = {fi.json_name for fi in mi.fields if fi.name in want}
            if set(d) != keys:
                out.append(("seq_json_keys", f"to_dict keys {sorted(d)} want {sorted(keys)}"))
            m2 = guard("from_dict", cls().from_dict, json.loads(json.dumps(d)))
            z = norm(schema, mi, guard("snapshot", snap_bp, schema, mi, m2))
            if z != want:
                out.append(("seq_json_self", f"from_dict(to_dict(m)) is {z!r:.300}, want {want!r:.300}; dict={d!r:.300}"))
        elif op == "json_from_ref":
            from google.protobuf import json_format

            refmsg = to_ref(schema, c.ref, mi.full_name, tree)
            # ks.Color carries the enum-name prefix the plugin strips (a known finding of C05): numbers there
            rtext = json_format.MessageToJson(refmsg, use_integers_for_enums=(pkg == "ks"))
            m2 = guard("from_json", cls().from_json, rtext)
            z = norm(schema, mi, guard("snapshot", snap_bp, schema, mi, m2))
            if z != want:
                out.append(("seq_json_from_ref", f"from_json(reference JSON) is {z!r:.300}, want {want!r:.300}; json={rtext:.300}"))
        elif op in ("pickle", "deepcopy"):
            m = guard("build", adapter.build, cls, mi, tree)
            dup = (lambda x: pickle.loads(pickle.dumps(x))) if op == "pickle" else copy.deepcopy
            m2 = guard(op, dup, m)
            z = norm(schema, mi, guard("snapshot", snap_bp, schema, mi, m2))
            a = norm(schema, mi, guard("snapshot", snap_bp, schema, mi, m))
            if z != a or guard("bytes", bytes, m2) != guard("bytes", bytes, m):
                out.append((f"seq_{op}", f"copy is {z!r:.300}, original {a!r:.300}"))
        else:
            raise ValueError(op)
    except Guarded as g:
        clause = {"roundtrip": "seq_roundtrip_snapshot", "parse_ref": "seq_ref_to_bp", "len": "seq_len_vs_bytes",
                  "twice": "seq_second_call_differs", "json_self": "seq_json_self", "json_from_ref": "seq_json_from_ref",
                  "pickle": "seq_pickle", "deepcopy": "seq_deepcopy"}[op]
        out.append((clause, f"raises in {g.where}: {type(g.exc).__name__}: {g.exc}"))
    return out


def evaluate_history(arg):
    """Runs in the forked child. -> list of (clause, sig, detail) for all steps, in order."""
    steps = arg["steps"]
    cs = _corpora()
    adapters = {p: BPAdapter(c.schema) for p, c in cs.items()}
    res = []
    for i, step in enumerate(steps):
        found = _step(cs, adapters, step)
        if not found:
            continue
        c = cs[step["pkg"]]
        schema = c.schema
        mi = schema.msg(f"{step['pkg']}.{step['msg']}")
        for clause, detail in found:
            def fails(mi_, single, clause=clause, step=step):
                if mi_.full_name != mi.full_name:
                    return False
                return any(cl == clause for cl, _ in _step(cs, adapters, dict(step, tree=single)))

            where = cm.culprits(schema, mi, step["tree"], fails)
            before = sorted({f"{s['pkg']}.{s['msg']}:{s['op']}" for s in steps[:i]})
            for w in where:
                res.append((clause, f"seq|{clause}|{step['pkg']}.{step['msg']}|{w}", f"step {i} {step['op']} on {step['pkg']}.{step['msg']} tree={step['tree']!r:.300} after {before} :: {detail}"))
    return res


def _strategy():
    cs_schema = {}

    def ts(pkg):
        if pkg not in cs_schema:
            cs_schema[pkg] = TreeStrategies(_corpora()[pkg].schema, max_depth=1, max_fields=4, max_items=2)
        return cs_schema[pkg]

    def full_tree(pkg, name):
        """Every field of the message set (one member per oneof group): whatever a cache confuses is in the value."""
        t = ts(pkg)
        mi = t.schema.msg(f"{pkg}.{name}")

        @st.composite
        def build(draw):
            tree, taken = {}, {}
            for fi in mi.fields:
                if fi.oneof:
                    taken.setdefault(fi.oneof, []).append(fi)
                    continue
                tree[fi.name] = draw(t.field(fi, 1))
            for members in taken.values():
                fi = draw(st.sampled_from(members))
                tree[fi.name] = draw(t.field(fi, 1))
            return tree

        return build()

    def tree_for(pkg, name):
        return st.one_of(ts(pkg).message(f"{pkg}.{name}"), full_tree(pkg, name))

    @st.composite
    def step(draw):
        pkg = draw(st.sampled_from(["ks", "ks_twin"]))
        name = draw(st.sampled_from(MESSAGES[pkg]))
        return {"pkg": pkg, "msg": name, "tree": draw(tree_for(pkg, name)), "op": draw(st.sampled_from(OPS))}

    @st.composite
    def twin_pair(draw):
        # the same message name in both packages, the same operation: the shape coarse caches confuse
        name = draw(st.sampled_from(MESSAGES["ks_twin"]))
        op = draw(st.sampled_from(OPS))
        first = draw(st.sampled_from(["ks", "ks_twin"]))
        second = "ks_twin" if first == "ks" else "ks"
        return [{"pkg": p, "msg": name, "tree": draw(full_tree(p, name)), "op": op} for p in (first, second)]

    @st.composite
    def history(draw):
        steps = []
        for part in draw(st.lists(st.one_of(step().map(lambda s: [s]), twin_pair(), twin_pair()), min_size=1, max_size=3)):
            steps += part
        return {"steps": steps}

    return history()


def target(pid: str, quick=200, thorough=3000):
    """The history target, reporting the clauses that concern property `pid`."""
    from ..fresh import fresh_call

    def ev(case):
        res = fresh_call(FUNC, case)
        fails = []
        for clause, sig, detail in res:
            props = set(CLAUSE_PROPS.get(clause, ()))
            if "timestamp" in sig or "duration" in sig or ".Times|" in sig:
                props |= _TIME_PROPS
            if "enum" in sig and "json" in clause:
                props |= {"C05"}
            if pid in props:
                fails.append(Failure(clause, sig, detail))
        steps = case["steps"]
        pkgs = {s["pkg"] for s in steps}
        labels = [f"steps:{len(steps)}", "both_packages" if len(pkgs) == 2 else "one_package"] + sorted({f"op:{s['op']}" for s in steps})
        twin = any(a["msg"] == b["msg"] and a["pkg"] != b["pkg"] for i, a in enumerate(steps) for b in steps[i + 1:])
        if twin:
            labels.append("same_message_name_in_both_packages")
        return Eval(fails, nontrivial=len(pkgs) == 2 and any(s["tree"] for s in steps), labels=labels)

    return Target("histories_two_schemas_fresh_process", ev, strategy=_strategy(), quick=quick, thorough=thorough, time_quick=60, pin_budget=60)
