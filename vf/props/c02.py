"""C02 Wire interoperability with the reference protobuf implementation."""
from __future__ import annotations

import random

from hypothesis import strategies as st

from .. import wire
from ..engine import Eval, Failure, Guarded, Target, collecting, guard
from ..values import BPAdapter, norm, snap_bp, snap_ref, to_ref
from . import _common as cm
from ._corpus import corpus

LEVEL = "exploration"
QUICK_SHARDS = 4
RULE = (
    "Hypothesis (value tree, construction route, list of re-encoding transformations, transformation seed) over the "
    "kitchen-sink corpus. Clauses: reference decodes bytes(bp) to the tree; betterproto decodes the reference "
    "serialisation to the tree; betterproto decodes every legal re-encoding (spec-level re-encoder: field-order "
    "permutation preserving per-number and per-oneof order, packed<->unpacked, packed field split in chunks, "
    "non-minimal varints in tags / lengths / values / packed elements, overridden earlier occurrences of singular "
    "scalars and of other oneof members, interleaved unknown fields) to the tree. A re-encoding only counts if the "
    "reference decoder accepts it and decodes it to the original message (soundness guard; otherwise discarded and "
    "counted). Non-trivial = at least one transformation actually changed the bytes."
)
ASSUMPTIONS = [
    "google.protobuf 7.36.1 (upb) is the reference; its decode of a re-encoding is the soundness guard",
    "repeated occurrences of a singular *message* field are not generated (protobuf merges them; not in the statement)",
]


def targets(ctx):
    c = corpus()
    schema = c.schema
    adapter = BPAdapter(schema)

    @collecting
    def clauses(out, name, tree, route, ops, xseed, stats=None):
        cls = c.bp(name)
        mi = schema.msg(f"ks.{name}")
        want = norm(schema, mi, tree)
        refmsg = to_ref(schema, c.ref, mi.full_name, tree)
        ref_bytes = refmsg.SerializeToString(deterministic=True)
        # bp -> ref
        m = guard("build", adapter.build, cls, mi, tree, route)
        b = guard("bytes", bytes, m)
        try:
            back = c.ref.cls(mi.full_name).FromString(b)
            got = norm(schema, mi, snap_ref(schema, mi, back))
            if got != want:
                out.append(("bp_to_ref", f"reference decodes bytes(bp) as {got!r}, want {want!r}; bytes={b.hex()[:200]}"))
        except Exception as e:  # noqa: BLE001 - reference rejects betterproto's bytes
            out.append(("bp_to_ref_rejected", f"reference rejects bytes(bp): {type(e).__name__}: {e}; bytes={b.hex()[:200]}"))
        # ref -> bp
        m2 = guard("parse_ref", cls().parse, ref_bytes)
        got = norm(schema, mi, guard("snapshot", snap_bp, schema, mi, m2))
        if got != want:
            out.append(("ref_to_bp", f"betterproto decodes reference bytes as {got!r}, want {want!r}; bytes={ref_bytes.hex()[:200]}"))
        # legal re-encodings
        if ops:
            st_ = {} if stats is None else stats
            e = wire.reencode(schema, mi, ref_bytes, ops, random.Random(xseed), stats=st_)
            if e != ref_bytes:
                ok = False
                try:
                    chk = c.ref.cls(mi.full_name).FromString(e)
                    ok = norm(schema, mi, snap_ref(schema, mi, chk)) == want
                except Exception:  # noqa: BLE001
                    ok = False
                if not ok:
                    st_["discarded_by_reference"] = st_.get("discarded_by_reference", 0) + 1
                else:
                    st_["accepted"] = 1
                    m3 = guard("parse_reencoded", cls().parse, e)
                    got = norm(schema, mi, guard("snapshot_re", snap_bp, schema, mi, m3))
                    if got != want:
                        out.append(("reencoded_to_bp", f"ops={sorted(k for k in st_ if k not in ('accepted',))} got={got!r} want={want!r} enc={e.hex()[:240]}"))

    def fails_clause(route, ops, xseed, clause):
        def f(mi, tree):
            name = mi.full_name.split(".")[-1]
            return any(cl == clause for cl, _ in clauses(name, tree, route, ops, xseed))

        return f

    def ev(case):
        name, tree, route = case["msg"], case["tree"], case.get("route", "kwargs")
        ops, xseed = case.get("ops", []), case.get("xseed", 0)
        mi = schema.msg(f"ks.{name}")
        stats = {}
        found = clauses(name, tree, route, ops, xseed, stats)
        fails = []
        for clause, detail in found:
            wheres = cm.culprits(schema, mi, tree, fails_clause(route, ops, xseed, clause))
            opsig = ""
            if clause in ("reencoded_to_bp",) or clause.startswith("raises_parse_reencoded") or clause.startswith("raises_snapshot_re"):
                # which single transformation is enough?
                single = [o for o in ops if fails_clause(route, [o], xseed, clause)(mi, tree)]
                opsig = "|ops:" + ("+".join(sorted(single)) if single else "combo:" + "+".join(sorted(ops)))
            for where in wheres:
                fails.append(Failure(clause, f"{clause}|{where}{opsig}", f"msg={name} route={route} ops={ops} xseed={xseed} tree={tree!r} :: {detail}"))
        labs = cm.labels_for(schema, mi, tree) + [f"xf:{k}" for k in stats]
        if stats.get("discarded_by_reference"):
            ctx.extra["reencodings_discarded_by_reference"] = ctx.extra.get("reencodings_discarded_by_reference", 0) + 1
        return Eval(fails, nontrivial=bool(stats.get("accepted")), labels=labs)

    base = cm.msg_tree_strategy(c)

    @st.composite
    def strat(draw):
        case = dict(draw(base))
        case["route"] = draw(st.sampled_from(["kwargs", "setattr"]))
        case["ops"] = draw(st.lists(st.sampled_from(wire.ALL_OPS), max_size=4, unique=True))
        case["xseed"] = draw(st.integers(0, 2**16))
        return case

    # dense re-encoding cases: messages with many packable / oneof / scalar fields
    dense_names = ["Repeats"] * 3 + ["Oneofs"] * 2 + ["Scalars"] * 2 + ["Optionals", "Tags", "Maps"]
    dense_base = cm.msg_tree_strategy(c, names=dense_names, max_fields=8)

    @st.composite
    def dense(draw):
        case = dict(draw(dense_base))
        case["route"] = "kwargs"
        case["ops"] = draw(st.lists(st.sampled_from(wire.ALL_OPS), min_size=1, max_size=3, unique=True))
        case["xseed"] = draw(st.integers(0, 2**16))
        return case

    return [
        Target("corpus_values_reencoded", ev, strategy=strat(), quick=450, thorough=6000, time_quick=70),
        Target("dense_reencodings", ev, strategy=dense(), quick=350, thorough=5000, time_quick=70),
    ]
