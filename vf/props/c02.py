"""C02 Wire interoperability with the reference protobuf implementation."""
from __future__ import annotations

import random

from hypothesis import strategies as st

from .. import wire
from ..engine import Eval, Failure, Guarded, Target, collecting, guard
from ..values import BPAdapter, norm, snap_bp, snap_ref, to_ref
from . import _common as cm
from ._corpus import corpus

LEVEL = "exploration"
QUICK_SHARDS = 4
RULE = (
    "Hypothesis (value tree, construction route, list of re-encoding transformations, transformation seed) over the "
    "kitchen-sink corpus, plus grammar-generated schemas compiled by the current plugin with PRNG-drawn values. Clauses: reference decodes bytes(bp) to the tree; betterproto decodes the reference "
    "serialisation to the tree; betterproto decodes every legal re-encoding (spec-level re-encoder: field-order "
    "permutation preserving per-number and per-oneof order, packed<->unpacked, packed field split in chunks, "
    "non-minimal varints in tags / lengths / values / packed elements, overridden earlier occurrences of singular "
    "scalars and of other oneof members, interleaved unknown fields) to the tree. A re-encoding only counts if the "
    "reference decoder accepts it and decodes it to the original message (soundness guard; otherwise discarded and "
    "counted). Non-trivial = at least one transformation actually changed the bytes."
)
ASSUMPTIONS = [
    "google.protobuf 7.36.1 (upb) is the reference; its decode of a re-encoding is the soundness guard",
    "repeated occurrences of a singular *message* field are not generated (protobuf merges them; not in the statement)",
]


def targets(ctx):
    c = corpus()
    from . import _poison

    _poison_fn = lambda: _poison.apply(c)  # noqa: E731
    schema = c.schema
    adapters = {}
    from .c08 import ENTRIES, decode_via

    @collecting
    def clauses(out, name, tree, route, ops, xseed, stats=None, tz=0, entry="parse"):
        adapter = adapters.get(tz) or adapters.setdefault(tz, BPAdapter(schema, tz_offset_min=tz))
        cls = c.bp(name)
        mi = schema.msg(f"ks.{name}")
        want = norm(schema, mi, tree)
        refmsg = to_ref(schema, c.ref, mi.full_name, tree)
        ref_bytes = refmsg.SerializeToString(deterministic=True)
        # bp -> ref
        m = guard("build", adapter.build, cls, mi, tree, route)
        b = guard("bytes", bytes, m)
        try:
            back = c.ref.cls(mi.full_name).FromString(b)
            got = norm(schema, mi, snap_ref(schema, mi, back))
            if got != want:
                out.append(("bp_to_ref", f"reference decodes bytes(bp) as {got!r}, want {want!r}; bytes={b.hex()[:200]}"))
        except Exception as e:  # noqa: BLE001 - reference rejects betterproto's bytes
            out.append(("bp_to_ref_rejected", f"reference rejects bytes(bp): {type(e).__name__}: {e}; bytes={b.hex()[:200]}"))
        # ref -> bp
        m2 = guard("parse_ref", decode_via, cls(), ref_bytes, entry)
        got = norm(schema, mi, guard("snapshot", snap_bp, schema, mi, m2))
        if got != want:
            out.append(("ref_to_bp", f"betterproto decodes reference bytes as {got!r}, want {want!r}; bytes={ref_bytes.hex()[:200]}"))
        # legal re-encodings
        if [o for o in ops if o != "override"]:
            st_ = {} if stats is None else stats
            e = wire.reencode(schema, mi, ref_bytes, ops, random.Random(xseed), stats=st_)
            if e != ref_bytes:
                ok = False
                try:
                    chk = c.ref.cls(mi.full_name).FromString(e)
                    ok = norm(schema, mi, snap_ref(schema, mi, chk)) == want
                except Exception:  # noqa: BLE001
                    ok = False
                if not ok:
                    st_["discarded_by_reference"] = st_.get("discarded_by_reference", 0) + 1
                else:
                    st_["accepted"] = 1
                    m3 = guard("parse_reencoded", decode_via, cls(), e, entry)
                    got = norm(schema, mi, guard("snapshot_re", snap_bp, schema, mi, m3))
                    if got != want:
                        out.append(("reencoded_to_bp", f"ops={sorted(k for k in st_ if k not in ('accepted',))} got={got!r} want={want!r} enc={e.hex()[:240]}"))

        # last one wins, also when the LAST occurrence carries the default value: append later occurrences of
        # singular scalar fields (proto3 optional too) with a new value; the expectation changes accordingly
        if "override" in ops:
            rng = random.Random(xseed)
            cand = [fi for fi in mi.fields if fi.name in tree and fi.card in ("single", "optional") and not fi.oneof
                    and fi.type != "message"]
            rng.shuffle(cand)
            tree2, extra = dict(tree), b""
            for fi in cand[:2]:
                zero = {"string": "", "bytes": b"", "bool": False, "float": 0.0, "double": 0.0}.get(fi.type, 0)
                other = {"string": "later", "bytes": b"\x01", "bool": True, "float": 2.5, "double": -2.5}.get(fi.type, 1)
                newv = zero if rng.random() < 0.7 else other
                tree2[fi.name] = newv
                wt, payload = wire.enc_scalar(fi.type, newv)
                extra += wire.make_record(fi.number, wt, payload).raw
            if extra:
                data = ref_bytes + extra
                want2 = norm(schema, mi, tree2)
                try:
                    ok = norm(schema, mi, snap_ref(schema, mi, c.ref.cls(mi.full_name).FromString(data))) == want2
                except Exception:  # noqa: BLE001
                    ok = False
                if ok:
                    if stats is not None:
                        stats["accepted"] = 1
                        stats["override_last_default" if any(not v for k, v in tree2.items() if tree.get(k) != v or k not in tree) else "override_last_other"] = 1
                    m4 = guard("parse_override", decode_via, cls(), data, entry)
                    got = norm(schema, mi, guard("snapshot_ov", snap_bp, schema, mi, m4))
                    if got != want2:
                        out.append(("later_occurrence_does_not_win", f"got={got!r} want={want2!r} enc={data.hex()[:240]}"))
                elif stats is not None:
                    stats["discarded_by_reference"] = stats.get("discarded_by_reference", 0) + 1

    def fails_clause(route, ops, xseed, clause, tz=0, entry="parse"):
        def f(mi, tree):
            name = mi.full_name.split(".")[-1]
            return any(cl == clause for cl, _ in clauses(name, tree, route, ops, xseed, None, tz, entry))

        return f

    def ev(case):
        name, tree, route = case["msg"], case["tree"], case.get("route", "kwargs")
        ops, xseed = case.get("ops", []), case.get("xseed", 0)
        tz, entry = case.get("tz", 0), case.get("entry", "parse")
        mi = schema.msg(f"ks.{name}")
        stats = {}
        found = clauses(name, tree, route, ops, xseed, stats, tz, entry)
        fails = []
        for clause, detail in found:
            wheres = cm.culprits(schema, mi, tree, fails_clause(route, ops, xseed, clause, tz, entry))
            opsig = ""
            if clause in ("reencoded_to_bp",) or clause.startswith("raises_parse_reencoded") or clause.startswith("raises_snapshot_re"):
                # which single transformation is enough?
                single = [o for o in ops if fails_clause(route, [o], xseed, clause, tz, entry)(mi, tree)]
                opsig = "|ops:" + ("+".join(sorted(single)) if single else "combo:" + "+".join(sorted(ops)))
            for where in wheres:
                fails.append(Failure(clause, f"{clause}|{where}{opsig}" + (f"|{entry}" if entry != "parse" and clause != "bp_to_ref" else ""), f"msg={name} route={route} ops={ops} xseed={xseed} tz={tz} entry={entry} tree={tree!r} :: {detail}"))
        labs = cm.labels_for(schema, mi, tree) + [f"xf:{k}" for k in stats] + [f"tz:{tz}", f"entry:{entry}"]
        if stats.get("discarded_by_reference"):
            ctx.extra["reencodings_discarded_by_reference"] = ctx.extra.get("reencodings_discarded_by_reference", 0) + 1
        return Eval(fails, nontrivial=bool(stats.get("accepted")), labels=labs)

    base = cm.msg_tree_strategy(c)

    @st.composite
    def strat(draw):
        case = dict(draw(base))
        case["route"] = draw(st.sampled_from(["kwargs", "setattr", "lazy"]))
        case["ops"] = draw(st.lists(st.sampled_from(wire.ALL_OPS + ("override",)), max_size=4, unique=True))
        case["xseed"] = draw(st.integers(0, 2**16))
        case["tz"] = draw(st.sampled_from([0, 0, 330, -480, 765]))
        case["entry"] = draw(st.sampled_from(ENTRIES))
        return case

    # dense re-encoding cases: messages with many packable / oneof / scalar fields
    dense_names = ["Repeats"] * 3 + ["Oneofs"] * 2 + ["Scalars"] * 2 + ["Optionals", "Tags", "Maps"]
    dense_base = cm.msg_tree_strategy(c, names=dense_names, max_fields=8)

    @st.composite
    def dense(draw):
        case = dict(draw(dense_base))
        case["route"] = "kwargs"
        case["ops"] = draw(st.lists(st.sampled_from(wire.ALL_OPS + ("override",)), min_size=1, max_size=3, unique=True))
        case["xseed"] = draw(st.integers(0, 2**16))
        case["entry"] = draw(st.sampled_from(ENTRIES))
        return case

    # ---- programs: grammar-generated schemas, PRNG-drawn values, differential in both directions + re-encodings
    def grammar_ev(case):
        from .. import build, gen
        from ..schema import render
        from ..schema_info import Schema
        from .c18 import simple_tree

        files = render(case["ast"])
        comp = gen.compile_files(files, tag="c02g_")
        try:
            if comp.protoc_rejected:
                return Eval(discard="protoc rejects")
            if comp.rc != 0:
                return Eval(discard="plugin failed (reported by C03)")
            gen.import_all(comp)
            if comp.import_errors:
                return Eval(discard="generated package not importable (reported by C03)")
            gschema = Schema(comp.fds)
            gref = build.Ref(comp.fds)
            gadapter = BPAdapter(gschema)
            classes = {}
            for pkg, mod in comp.modules.items():
                for cls in gen.classes_of(mod)[0]:
                    mk = gen.marker_of_message(cls)
                    if mk:
                        classes[mk] = cls
            fulls = {fi.number: full for full, mi in gschema.messages.items() for fi in mi.fields if fi.number > 20000 and fi.name.startswith("mk")}
            fails, n, nt, seen = [], 0, 0, set()
            for vs in case["vseeds"]:
                rng = random.Random(vs)
                marks = sorted(m for m in fulls if m in classes)
                if not marks:
                    break
                for _ in range(8):
                    mk = marks[rng.randrange(len(marks))]
                    mi = gschema.msg(fulls[mk])
                    cls = classes[mk]
                    tree = simple_tree(gschema, mi.full_name, rng)
                    want = norm(gschema, mi, tree)
                    n += 1
                    found = []
                    try:
                        refmsg = to_ref(gschema, gref, mi.full_name, tree)
                        ref_bytes = refmsg.SerializeToString(deterministic=True)
                        m = guard("build", gadapter.build, cls, mi, tree)
                        b = guard("bytes", bytes, m)
                        try:
                            back = gref.cls(mi.full_name).FromString(b)
                            got = norm(gschema, mi, snap_ref(gschema, mi, back))
                            if got != want:
                                found.append(("bp_to_ref", f"reference reads {got!r:.200} want {want!r:.200}"))
                        except Exception as e:  # noqa: BLE001
                            found.append(("bp_to_ref_rejected", f"{e}"))
                        entry = ENTRIES[rng.randrange(len(ENTRIES))]
                        m2 = guard("parse_ref", decode_via, cls(), ref_bytes, entry)
                        got = norm(gschema, mi, guard("snapshot", snap_bp, gschema, mi, m2))
                        if got != want:
                            found.append(("ref_to_bp", f"betterproto reads {got!r:.200} want {want!r:.200}"))
                        ops = rng.sample(list(wire.ALL_OPS), rng.randrange(1, 4))
                        stats = {}
                        e = wire.reencode(gschema, mi, ref_bytes, ops, random.Random(vs), stats=stats)
                        if e != ref_bytes:
                            try:
                                ok = norm(gschema, mi, snap_ref(gschema, mi, gref.cls(mi.full_name).FromString(e))) == want
                            except Exception:  # noqa: BLE001
                                ok = False
                            if ok:
                                nt += 1
                                m3 = guard("parse_reencoded", decode_via, cls(), e, entry)
                                got = norm(gschema, mi, guard("snapshot_re", snap_bp, gschema, mi, m3))
                                if got != want:
                                    found.append(("reencoded_to_bp", f"ops={ops} got={got!r:.200} want={want!r:.200}"))
                    except Guarded as g:
                        found.append((f"raises_{g.where}_{type(g.exc).__name__}", str(g)))
                    for cl, d in found:
                        kinds = ",".join(sorted({fi.kind for fi in mi.fields if fi.name in tree}))[:120]
                        sig = f"grammar|{cl}|{kinds}"
                        if sig not in seen:
                            seen.add(sig)
                            fails.append(Failure(cl, sig, f"{mi.full_name} tree={tree!r:.300} :: {d}\n" + "\n".join(f"# {k}\n{t}" for k, t in files.items())[:2000]))
            return Eval(fails, weight=max(1, n), nontrivial_count=nt, labels=["grammar_schema"])
        finally:
            comp.cleanup()

    from ..schema import schema_ast

    gstrat = st.tuples(schema_ast(max_packages=2, services=False), st.lists(st.integers(0, 2**20), min_size=4, max_size=4)).map(lambda t: {"ast": t[0], "vseeds": t[1]})

    from . import _seq

    from . import _wkt

    return [
        Target("grammar_schema_values", grammar_ev, strategy=gstrat, quick=3, thorough=40, time_quick=60, time_thorough=900, pin_budget=10, pin_sigs=1),
        __import__("vf.props._prog", fromlist=["target"]).target("C02", c),
        Target("corpus_values_reencoded", ev, poison=_poison_fn, strategy=strat(), quick=450, thorough=6000, time_quick=70),
        Target("dense_reencodings", ev, poison=_poison_fn, strategy=dense(), quick=350, thorough=5000, time_quick=70),
        _seq.target("C02"),
        _wkt.target("C02"),
        *__import__("vf.props._thr", fromlist=["target"]).target(ctx, ['parse:Names', 'parse_vs_from_dict', 'parse:Words']),
    ]
