"""C20 Enums are open, canonical and immutable."""
from __future__ import annotations

import copy
import json
import pickle
import sys
import types

from hypothesis import strategies as st

from ..engine import Eval, Failure, Target, collecting, guard
from ..values import norm, snap_bp, snap_ref
from ._corpus import corpus

LEVEL = "exploration"
QUICK_SHARDS = 4
RULE = (
    "(a) Hypothesis enum definitions built as betterproto.Enum subclasses: 1..8 names over int32 numbers incl. 0, "
    "negatives, gaps and aliases (incl. aliases of 0); lookups by number / try_value / name / from_string / "
    "__members__ must return the one canonical (first-declared) member object with declared name and number; "
    "copy/deepcopy identity; pickle keeps name and value; undefined numbers via try_value == int; class and member "
    "mutation raises AttributeError and changes nothing. (b) int32 numbers (defined and undefined, negative) as field "
    "values in singular / optional / repeated / map-value / oneof positions of the plugin-generated corpus enums (default, pydantic_dataclasses and typing.310 output) "
    "(prefixed enum Color, aliased enum Plain), passed as member or as raw int: number survives bytes->parse "
    "(reference decoder as cross-check) and to_dict/to_json->from_dict in every position; defined numbers decode to "
    "the canonical member object. Non-trivial = enum with a negative or aliased number, or a field holding an "
    "undefined number."
)
ASSUMPTIONS = ["dynamic Enum subclasses are registered in this module so that pickle can find them"]

_NAMES = ["A", "B", "C", "ZERO", "X1", "neg", "Lower", "_U", "VALUE", "name_", "ALIAS", "K9",
          # names that are also attributes of int (members are ints), sunder names
          "real", "imag", "numerator", "denominator", "bit_length", "conjugate", "_MAX_", "_first_",
          # names of the two attributes every member has
          "value", "name"]
_CLS_NAMES = ["GenEnum", "Alert", "HTTPCode", "lvl"]


def _upper_snake(name: str) -> str:
    import re

    return re.sub(r"(?<=[a-z0-9])(?=[A-Z])|(?<=[A-Z])(?=[A-Z][a-z])", "_", name).upper()


def make_enum(defn, tag, cls_name="GenEnum"):
    import betterproto

    # (the class is registered in this module under its name so that pickle finds it; the latest definition wins)
    name = cls_name if cls_name != "GenEnum" else f"GenEnum_{tag}"
    mod = sys.modules[__name__]

    def body(ns):
        ns["__module__"] = __name__
        ns["__qualname__"] = name
        for n, v in defn:
            ns[n] = v

    cls = types.new_class(name, (betterproto.Enum,), exec_body=body)
    setattr(mod, name, cls)
    return cls


_counter = [0]


def targets(ctx):
    import betterproto

    c = corpus()
    schema = c.schema

    # ------------------------------------------------------------------ (a) definitions
    @collecting
    def def_clauses(out, defn, cls_name="GenEnum"):
        _counter[0] += 1
        E = guard("define", make_enum, defn, f"{ctx.shard}_{_counter[0]}", cls_name)
        try:
            canon = {}
            for n, v in defn:
                canon.setdefault(v, n)
            for n, v in defn:
                first = canon[v]
                by_num = guard("call", E, v)
                if by_num.name != first or by_num.value != v or int(by_num) != v:
                    out.append(("lookup_by_number", f"E({v}) -> name={by_num.name!r} value={by_num.value!r}, want {first!r}/{v}"))
                if guard("try_value", E.try_value, v) is not by_num:
                    out.append(("try_value_identity", f"try_value({v}) is not E({v})"))
                if guard("getitem", lambda: E[n]) is not by_num:
                    out.append(("lookup_by_name_identity", f"E[{n!r}] is not E({v})"))
                if guard("from_string", E.from_string, n) is not by_num:
                    out.append(("from_string_identity", f"from_string({n!r}) is not E({v})"))
                # (attribute access is only asked for names that are not attributes of int itself: members are ints, and
                # `E.real` is Python's int.real - looking a member up BY NAME is E[name] / E.from_string(name))
                if not hasattr(int, n) and guard("getattr", getattr, E, n) is not by_num:
                    out.append(("attribute_identity", f"E.{n} is not E({v})"))
                if copy.copy(by_num) is not by_num or copy.deepcopy(by_num) is not by_num:
                    out.append(("copy_identity", f"copy/deepcopy of E({v}) is a new object"))
                for proto in range(0, pickle.HIGHEST_PROTOCOL + 1):
                    # every pickle protocol; also inside a container, as part of some larger pickled state
                    p, plist = guard(f"pickle_protocol_{proto}", lambda: pickle.loads(pickle.dumps((by_num, [by_num]), protocol=proto)))
                    bad = None
                    for q in (p, plist[0]):
                        try:
                            if q.name != first or q.value != v or q != v or type(q) is not E:
                                bad = f"{q.name!r}/{q.value!r}"
                        except (AttributeError, TypeError, ValueError) as e:
                            # (repr() of a member reads its name: not usable here)
                            bad = f"{type(q).__name__}({int(q) if isinstance(q, int) else '?'}): not a member with name / value ({type(e).__name__}: {e})"
                    if bad:
                        out.append(("pickle_member", f"protocol {proto}: pickled E({v}) -> {bad}"))
                        break
                if by_num != v or not (by_num == v):
                    out.append(("member_eq_int", f"E({v}) != {v}"))
            members = guard("members", lambda: dict(E.__members__))
            if set(members) != {n for n, _ in defn} or any(members[n] is not E(v) for n, v in defn):
                out.append(("members_mapping", f"__members__={members!r}"))
            it = guard("iter", list, E)
            if any(x is not E(x.value) for x in it) or {x.value for x in it} != set(canon):
                out.append(("iteration", f"list(E)={it!r}"))
            for u in (12345678, -98765, 2**31 - 1, -(2**31)):
                if u in canon:
                    continue
                uv = guard("try_value_undefined", E.try_value, u)
                if not (uv == u and int(uv) == u and uv.value == u and isinstance(uv, E)):
                    out.append(("undefined_number", f"try_value({u}) -> {uv!r} value={getattr(uv, 'value', None)!r}"))
                pu = guard("pickle_undefined", lambda: pickle.loads(pickle.dumps(uv)))
                if pu != u or pu.value != u:
                    out.append(("pickle_undefined", f"{pu!r}"))
                break
            # immutability
            n0, v0 = defn[0]
            m0 = E(v0)
            for label, fn in (
                ("class_setattr_new", lambda: setattr(E, "BRAND_NEW", 5)),
                ("class_setattr_member", lambda: setattr(E, n0, 99)),
                ("class_delattr", lambda: delattr(E, n0)),
                ("member_set_name", lambda: setattr(m0, "name", "hacked")),
                ("member_set_value", lambda: setattr(m0, "value", v0 + 1)),
                ("member_del_name", lambda: delattr(m0, "name")),
                ("member_set_new", lambda: setattr(m0, "extra", 1)),
                # special-method names are attributes like any other: replacing them changes what members ARE
                ("class_setattr_dunder_eq", lambda: setattr(E, "__eq__", lambda a, b: True)),
                ("class_setattr_dunder_int", lambda: setattr(E, "__int__", lambda a: -12345)),
                ("class_setattr_dunder_members", lambda: setattr(E, "__members__", {})),
                ("class_setattr_dunder_hash", lambda: setattr(E, "__hash__", lambda a: 0)),
                ("class_delattr_dunder_repr", lambda: delattr(E, "__repr__")),
                # ... and through what the class hands out: the member table must be read-only
                ("members_table_setitem", lambda: E.__members__.__setitem__("SNEAKED_IN", m0)),
                ("members_table_delitem", lambda: E.__members__.__delitem__(n0)),
                ("members_table_clear", lambda: E.__members__.clear()),
                ("members_table_pop", lambda: E.__members__.pop(n0)),
                ("members_table_update", lambda: E.__members__.update({"SNEAKED_IN2": m0})),
            ):
                try:
                    fn()
                    out.append(("mutation_allowed", f"{label} did not raise"))
                except AttributeError:
                    pass
                except TypeError:
                    if not label.startswith("members_table_"):  # a read-only mapping refuses with TypeError
                        out.append(("mutation_wrong_exception", f"{label}: TypeError"))
                except Exception as e:  # noqa: BLE001
                    out.append(("mutation_wrong_exception", f"{label}: {type(e).__name__}: {e}"))
            try:
                changed = (E(v0) is not m0 or m0.name != canon[v0] or m0.value != v0 or E[n0] is not m0 or hasattr(E, "BRAND_NEW")
                           or m0 == v0 + 1 or int(m0) != v0 or n0 not in E.__members__ or "SNEAKED_IN" in E.__members__
                           or len(E) != len(set(canon)) and len(E) != len(defn) or [m.value for m in E][:1] != [defn[0][1]])
                what = "" if not changed else f"E({v0}) -> {E(v0)!r}; members {sorted(E.__members__)}"
            except Exception as e:  # noqa: BLE001 - a lookup that worked before the attempts fails now
                changed, what = True, f"{type(e).__name__}: {e}"
            if changed:
                out.append(("state_changed_by_mutation_attempt", what))
        finally:
            try:
                delattr(sys.modules[__name__], E.__name__)
            except Exception:  # noqa: BLE001
                pass

    def def_ev(case):
        defn = [(n, v) for n, v in case["defn"]]
        found = def_clauses(defn, case.get("cls_name", "GenEnum"))
        nums = [v for _, v in defn]
        shape = []
        if case.get("cls_name"):
            shape.append("named_class")
        if any(n in ("real", "imag", "numerator", "denominator", "bit_length", "conjugate") for n, _ in defn):
            shape.append("int_attribute_name")
        if any(n.startswith("_") and n.endswith("_") for n, _ in defn):
            shape.append("sunder_name")
        if any(v < 0 for v in nums):
            shape.append("neg")
        if len(set(nums)) < len(nums):
            shape.append("alias")
            if nums.count(0) > 1:
                shape.append("alias0")
        if 0 not in nums:
            shape.append("nozero")
        fails = [Failure(cl, f"def|{cl}|{'+'.join(shape) or 'plain'}", f"defn={defn!r} :: {d}") for cl, d in found]
        return Eval(fails, nontrivial=bool({"neg", "alias"} & set(shape)), labels=["def"] + [f"shape:{s}" for s in shape])

    number = st.one_of(st.sampled_from([0, 0, 1, 2, -1, -5, 7, 2**31 - 1, -(2**31), 1000]), st.integers(-(2**31), 2**31 - 1))

    @st.composite
    def def_strat(draw):
        names = draw(st.lists(st.sampled_from(_NAMES), min_size=1, max_size=8, unique=True))
        nums = [draw(number) for _ in names]
        if draw(st.booleans()) and len(names) > 1:  # force an alias
            i = draw(st.integers(1, len(names) - 1))
            nums[i] = nums[draw(st.integers(0, i - 1))]
        case = {"defn": [[n, v] for n, v in zip(names, nums)]}
        cls_name = draw(st.sampled_from(_CLS_NAMES))
        if cls_name != "GenEnum":
            case["cls_name"] = cls_name
            if draw(st.booleans()):
                # a value that carries the enum's own name as a prefix NEXT TO the unprefixed one (ALERT_HIGH and HIGH): two
                # different members
                base = draw(st.sampled_from(names))
                twin = f"{_upper_snake(cls_name)}_{base}"
                if twin not in names:
                    used = {v for _, v in case["defn"]}
                    case["defn"].append([twin, next(x for x in range(1000, 1100) if x not in used)])
        return case

    # ------------------------------------------------------------------ (b) field positions
    POS = [
        ("Scalars", "f_color", "Color", lambda v: v),
        ("Scalars", "f_plain", "Plain", lambda v: v),
        ("Optionals", "o_color", "Color", lambda v: v),
        ("Optionals", "o_plain", "Plain", lambda v: v),
        ("Repeats", "r_color", "Color", lambda v: [v, v]),
        ("Repeats", "r_plain", "Plain", lambda v: [v]),
        ("Maps", "m_fixed32_color", "Color", lambda v: {3: v}),
        ("Maps", "m_string_plain", "Plain", lambda v: {"k": v}),
        ("Oneofs", "a_color", "Color", lambda v: v),
        ("Oneofs", "c_plain", "Plain", lambda v: v),
        ("Words", "mw", "Word", lambda v: {"k": v}),
        ("Words", "mk", "Kw", lambda v: {"k": v}),
        ("Words", "miw", "Word", lambda v: {5: v}),
        ("Words", "rk", "Kw", lambda v: [v]),
        ("Words", "pw", "Word", lambda v: v),
    ]

    def unwrap(val):
        if isinstance(val, list):
            return val[0] if val and all(x == val[0] for x in val) else ("list", val)
        if isinstance(val, dict):
            vs = list(val.values())
            return vs[0] if len(vs) == 1 else ("dict", val)
        return val

    _variants = {}

    def variant_corpus(variant):
        if variant == "default":
            return c
        if variant not in _variants:
            _variants[variant] = corpus(opts=(variant,))
        return _variants[variant]

    @collecting
    def pos_clauses(out, pi, n, as_member, variant="default"):
        msg, field, ename, wrap = POS[pi]
        cv = variant_corpus(variant)
        cls, E = cv.bp(msg), cv.bp(ename)
        mi = schema.msg(f"ks.{msg}")
        defined = n in schema.enums[f"ks.{ename}"].numbers
        if as_member == "foreign":
            # a member of ANOTHER enum class carrying the same number (same-named enums of two packages / API versions):
            # an int like any other as far as this field is concerned
            Other = cv.bp("Plain" if ename != "Plain" else "Color")
            val = guard("try_value_foreign", Other.try_value, n)
        else:
            val = guard("try_value", E.try_value, n) if as_member else n
        if as_member is True and not (val == n and int(val) == n):
            out.append(("undefined_eq_int", f"try_value({n}) == {n} is False"))
        m = guard("construct", lambda: cls(**{field: wrap(val)}))
        m_set = cls()
        guard("setattr", setattr, m_set, field, wrap(val))
        b = guard("bytes", bytes, m)
        if guard("bytes_setattr", bytes, m_set) != b:
            out.append(("setattr_vs_ctor_bytes", "different encodings"))
        if guard("len", len, m) != len(b):
            out.append(("len_vs_bytes", f"len={len(m)} len(bytes)={len(b)}"))
        from io import BytesIO

        s_ = BytesIO()
        guard("dump_delimited", m.dump, s_, betterproto.SIZE_DELIMITED)
        s_.seek(0)
        back = guard("load_delimited", cls().load, s_, betterproto.SIZE_DELIMITED)
        if guard("bytes_delimited", bytes, back) != b:
            out.append(("delimited_roundtrip", "dump/load with SIZE_DELIMITED changes the message"))
        # reference cross-check of the wire form
        try:
            r = c.rf(msg).FromString(b)
            rv = unwrap(snap_ref(schema, mi, r).get(field, 0 if "o_" not in field else None))
            rv = list(rv.values())[0] if isinstance(rv, dict) and len(rv) == 1 else rv
            if rv != n and not (n == 0 and rv in (None, 0)):
                out.append(("wire_vs_reference", f"reference reads {rv!r}, want {n}; bytes={b.hex()}"))
        except Exception as e:  # noqa: BLE001
            out.append(("wire_rejected_by_reference", f"{e}"))
        m2 = guard("parse", cls().parse, b)
        got = unwrap(guard("getattr", getattr, m2, field))
        if not (isinstance(got, int) and got == n and int(got) == n):
            out.append(("binary_roundtrip_number", f"got={got!r} want={n}"))
        elif defined and got is not E(n):
            out.append(("decoded_member_not_canonical", f"got {got!r} (id differs from E({n}))"))
        elif not defined and not isinstance(got, E):
            out.append(("decoded_undefined_not_enum_instance", f"{type(got).__name__}"))
        # JSON
        for path in ("dict", "json"):
            d = guard("to_dict", m.to_dict)
            if path == "json":
                d = json.loads(guard("to_json", m.to_json))
            m3 = guard(f"from_{path}", cls().from_dict, d)
            m3c = guard(f"from_{path}_classmethod", cls.from_dict, d)
            if guard("bytes_json_classmethod", bytes, m3c) != guard("bytes_json_instance", bytes, m3):
                out.append((f"json_classmethod_vs_instance_{path}", f"dict={d!r}"))
            got = unwrap(guard("getattr_json", getattr, m3, field))
            if not (isinstance(got, int) and not isinstance(got, bool) and got == n):
                out.append((f"json_roundtrip_number_{path}", f"got={got!r} want={n} dict={d!r}"))
            elif guard("bytes_json", bytes, m3) != b:
                out.append((f"json_roundtrip_bytes_{path}", f"dict={d!r}"))

    def pos_ev(case):
        pi, n, as_member = case["pos"], case["n"], case["as_member"]
        msg, field, ename, _ = POS[pi]
        defined = n in schema.enums[f"ks.{ename}"].numbers
        variant = case.get("variant", "default")
        found = pos_clauses(pi, n, as_member, variant)
        vc = ("defined" if defined else "undefined") + ("_neg" if n < 0 else "")
        tag = "" if variant == "default" else f"|{variant}"
        fails = [Failure(cl, f"pos|{cl}|{field}|{vc}|{'member' if as_member else 'int'}{tag}", f"case={case!r} :: {d}") for cl, d in found]
        return Eval(fails, nontrivial=(not defined) or n < 0, labels=[f"pos:{field}", f"vc:{vc}", f"as_member:{as_member}", f"variant:{variant}"])

    @st.composite
    def pos_strat(draw):
        pi = draw(st.integers(0, len(POS) - 1))
        ename = POS[pi][2]
        nums = schema.enums[f"ks.{ename}"].numbers
        n = draw(st.one_of(st.sampled_from(nums), st.sampled_from([-1, -2, 3, 99, 2**31 - 1, -(2**31), 2**31 - 2]), st.integers(-(2**31), 2**31 - 1)))
        return {"pos": pi, "n": n, "as_member": draw(st.sampled_from([True, True, False, False, "foreign"])),
                "variant": draw(st.sampled_from(["default", "default", "pydantic_dataclasses", "pydantic_dataclasses", "typing.310"]))}

    # corpus enum definitions (through the plugin) as fixed definition cases
    def corpus_defs():
        for ename in ("Color", "Plain", "Word", "Edge"):  # (Kw: value names that are keywords get an underscore - the known C05 finding)
            yield {"plugin_enum": ename}

    @collecting
    def plugin_def_clauses(out, ename):
        E = c.bp(ename)
        decl = schema.enums[f"ks.{ename}"].values
        seen = {}
        for pname, num in decl:
            seen.setdefault(num, pname)
        for num, first in seen.items():
            mem = guard("call", E, num)
            if mem.value != num or guard("try_value", E.try_value, num) is not mem:
                out.append(("plugin_lookup_by_number", f"{ename}({num}) -> {mem!r}"))
            # the plugin may strip the enum-name prefix; the name must be a suffix of the declared first name
            if not first.endswith(mem.name or "\0"):
                out.append(("plugin_member_name", f"{ename}({num}).name={mem.name!r} declared {first!r}"))
            if E[mem.name] is not mem or E.from_string(mem.name) is not mem:
                out.append(("plugin_lookup_by_name", f"{ename}[{mem.name!r}]"))
            if copy.deepcopy(mem) is not mem or getattr(pickle.loads(pickle.dumps(mem)), "value", "<no value>") != num or getattr(pickle.loads(pickle.dumps(mem)), "name", "<no name>") != mem.name:
                out.append(("plugin_copy_pickle", f"{mem!r}"))
        if len({m.value for m in E}) != len(seen):
            out.append(("plugin_member_set", f"{list(E)!r}"))

    def plugin_def_ev(case):
        found = plugin_def_clauses(case["plugin_enum"])
        fails = [Failure(cl, f"plugin_def|{cl}|{case['plugin_enum']}", d) for cl, d in found]
        return Eval(fails, nontrivial=True, labels=["plugin_def"])

    from . import _seq

    return [
        Target("plugin_enum_definitions", plugin_def_ev, cases=corpus_defs, exhaustive=True, shard_cases=False),
        Target("enum_definitions", def_ev, strategy=def_strat(), quick=400, thorough=5000),
        Target("enum_field_positions", pos_ev, strategy=pos_strat(), quick=500, thorough=6000),
        _seq.target("C20"),
        *__import__("vf.props._thr", fromlist=["target"]).target(ctx, ['enum_lookups', 'parse:Words']),
    ]
