"""C17 Malformed or truncated input is rejected or isolated, never mis-decoded."""
from __future__ import annotations

import dataclasses
import datetime as _dt
import typing

from hypothesis import strategies as st

from .. import wire
from ..engine import Eval, Failure, Target
from ..schema_info import wire_type_of
from ..values import BPInfo, norm, snap_bp, snap_ref, to_ref
from . import _common as cm
from ._corpus import corpus

LEVEL = "fault_enumeration"
QUICK_SHARDS = 4
RULE = (
    "Inputs x faults: reference encodings of Hypothesis corpus values x (a) EVERY truncation point, (b) single-byte "
    "corruption of every tag / length position (positions from the spec record parser), (c) wire-type substitution on "
    "each field kind (payload re-shaped so the record stays well-formed; inserted before or after the genuine "
    "occurrence; decoded through parse / FromString / load / load(size) / load(SIZE_DELIMITED)), (d) inserted field-number-0 and wire-type-6/7 tags, (e) group start/end markers around known and "
    "unknown field numbers with known field numbers inside, (e2) a well-formed LEN record whose sub-message / packed "
    "payload is cut in the middle of an inner record / element; plus (f) Hypothesis random byte strings and (thorough "
    "tier) an atheris / libFuzzer coverage-guided campaign per shard on Message.parse (empty and seeded corpus), the "
    "oracle inside the target. Oracle: decoding "
    "terminates and either raises or returns a message whose every field passes a type walker against its declared "
    "Python type and which bytes() encodes again; must raise: a proper prefix cutting a top-level record in the "
    "middle (also inside a sub-message or packed payload), wire types 6/7, field number 0; a wire-type mismatch (only pairs the reference itself keeps as unknown "
    "field) must not raise, must leave every known field as it was and must reappear byte-for-byte in bytes(m); a "
    "group must leave the known-field snapshot unchanged. The reference's accept/reject decision is recorded per "
    "input (agreement table), not asserted. Non-trivial = input that is not a valid canonical encoding."
)
ASSUMPTIONS = ["record boundaries / tag and length positions come from the spec parser in vf/wire.py",
               "the reference decoder decides which wire-type mismatches count as 'kept as unknown field'"]

NAMES = ["Scalars", "Optionals", "Repeats", "Maps", "Oneofs", "Wrappers", "Times", "Tags", "Rec", "Leaf", "Words", "Holder", "Empty"]


def type_ok(hint, v, depth=0) -> typing.Optional[str]:
    """None if v conforms to the resolved type hint, else a short description of the mismatch."""
    import betterproto

    origin = getattr(hint, "__origin__", None)
    args = getattr(hint, "__args__", ())
    if origin is typing.Union or type(hint).__name__ == "UnionType":
        if v is None:
            return None
        inner = [a for a in args if a is not type(None)]
        return type_ok(inner[0], v, depth)
    if origin is list:
        if not isinstance(v, list):
            return f"{type(v).__name__} instead of list"
        for x in v:
            r = type_ok(args[0], x, depth)
            if r:
                return "list element: " + r
        return None
    if origin is dict:
        if not isinstance(v, dict):
            return f"{type(v).__name__} instead of dict"
        for k, x in v.items():
            r = type_ok(args[0], k, depth) or type_ok(args[1], x, depth)
            if r:
                return "map entry: " + r
        return None
    if hint is int:
        return None if isinstance(v, int) and not isinstance(v, bool) else f"{type(v).__name__} instead of int"
    if hint is float:
        return None if isinstance(v, (float, int)) and not isinstance(v, bool) else f"{type(v).__name__} instead of float"
    if hint is bool:
        return None if isinstance(v, bool) else f"{type(v).__name__} instead of bool"
    if hint is str:
        return None if isinstance(v, str) else f"{type(v).__name__} instead of str"
    if hint is bytes:
        return None if isinstance(v, (bytes, bytearray)) else f"{type(v).__name__} instead of bytes"
    if hint is _dt.datetime:
        return None if isinstance(v, _dt.datetime) else f"{type(v).__name__} instead of datetime"
    if hint is _dt.timedelta:
        return None if isinstance(v, _dt.timedelta) else f"{type(v).__name__} instead of timedelta"
    if isinstance(hint, type) and issubclass(hint, betterproto.Enum):
        if isinstance(v, betterproto.Enum) and not isinstance(v, hint):
            return f"member of {type(v).__name__} instead of {hint.__name__}"  # (a bare int is accepted: the enum is open)
        return None if isinstance(v, int) and not isinstance(v, bool) else f"{type(v).__name__} instead of enum/int"
    if isinstance(hint, type) and issubclass(hint, betterproto.Message):
        if not isinstance(v, hint):
            return f"{type(v).__name__} instead of {hint.__name__}"
        return walk(v, depth + 1)
    return None


def walk(m, depth=0) -> typing.Optional[str]:
    import betterproto

    if depth > 12:
        return None
    info = BPInfo.of(type(m))
    groups = {}
    for name, meta in info.fields:
        if meta.group:
            if betterproto.which_one_of(m, meta.group)[0] != name:
                continue
        try:
            v = getattr(m, name)
        except AttributeError:
            continue
        r = type_ok(info.hints[name], v, depth)
        if r:
            return f"{type(m).__name__}.{name}: {r}"
    return None


def targets(ctx):
    c = corpus()
    from . import _poison

    _poison_fn = lambda: _poison.apply(c)  # noqa: E731
    schema = c.schema
    agreement = ctx.extra.setdefault("reference_agreement", {})

    def ref_accepts(name, data) -> bool:
        try:
            c.rf(name).FromString(data)
            return True
        except Exception:  # noqa: BLE001
            return False

    def decode(name, data, entry="parse"):
        """-> ('ok', msg) | ('raise', exc); entry in {parse, FromString, load, load_size, load_delimited}"""
        from .c08 import decode_via

        try:
            if entry == "FromString":
                return "ok", c.bp(name).FromString(data)
            return "ok", decode_via(c.bp(name)(), data, entry)
        except RecursionError as e:
            return "raise", e
        except Exception as e:  # noqa: BLE001
            return "raise", e

    def tally(name, data, status):
        k = f"bp_{'accepts' if status == 'ok' else 'rejects'}/ref_{'accepts' if ref_accepts(name, data) else 'rejects'}"
        agreement[k] = agreement.get(k, 0) + 1

    def validity(name, data, status, m, kind):
        """Oracle A on one decode result."""
        if status != "ok":
            return []
        out = []
        bad = walk(m)
        if bad:
            hintkind = bad.split(": ", 1)[1]
            out.append(("field_of_wrong_type", f"{kind}|{hintkind}", f"{bad}; input={data.hex()[:160]}"))
        try:
            bytes(m)
        except Exception as e:  # noqa: BLE001
            out.append(("returned_message_not_encodable", f"{kind}|{type(e).__name__}", f"{e}; input={data.hex()[:160]}"))
        return out

    def known_snapshot(name, m):
        mi = schema.msg(f"ks.{name}")
        try:
            return norm(schema, mi, snap_bp(schema, mi, m))
        except Exception as e:  # noqa: BLE001
            return ("snapshot failed", type(e).__name__)

    # ------------------------------------------------------------------ (a) truncation, batch per encoding
    def trunc_ev(case):
        name, tree = case["msg"], case["tree"]
        mi = schema.msg(f"ks.{name}")
        data = to_ref(schema, c.ref, mi.full_name, tree).SerializeToString(deterministic=True)
        bounds = set(wire.record_boundaries(data))
        recs = wire.parse_records(data)
        fails, seen, nt = [], set(), 0
        cuts = range(1, len(data)) if "only_cut" not in case else [case["only_cut"]]
        for cut in cuts:
            prefix = data[:cut]
            status, res = decode(name, prefix)
            tally(name, prefix, status)
            nt += 1
            if cut in bounds:
                found = validity(name, prefix, status, res, "prefix_at_boundary")
            else:
                r = next(r for r in recs if r.start < cut < r.end)
                fi = mi.by_number(r.number)
                region = "tag" if cut < r.start + len(wire.tag(r.number, r.wt)) else ("len" if r.wt == 2 and cut < r.end - len(r.payload) else "payload")
                found = validity(name, prefix, status, res, "prefix_mid_record")
                if status == "ok":
                    found.append(("truncated_record_accepted", f"{fi.kind if fi else 'unknown'}|cut_in_{region}", f"cut={cut}/{len(data)} input={prefix.hex()[:160]}"))
            # the same prefix behind a declared extent: as the body of a SIZE_DELIMITED frame that announces the whole
            # message, and through load(stream, size=len(whole message)) - the announced bytes are not there, wherever
            # the cut falls (record boundary or not): a message may not be returned
            import betterproto
            from io import BytesIO

            for how, call in (("frame", lambda: c.bp(name)().load(BytesIO(wire.enc_varint(len(data)) + prefix), betterproto.SIZE_DELIMITED)),
                              ("sized", lambda: c.bp(name)().load(BytesIO(prefix), len(data)))):
                try:
                    call()
                except RecursionError:
                    continue
                except Exception:  # noqa: BLE001
                    continue
                nt += 1
                found.append(("short_frame_accepted", f"{how}|cut_{'at_boundary' if cut in bounds else 'mid_record'}", f"cut={cut}/{len(data)} prefix={prefix.hex()[:160]}"))
            for cl, where, d in found:
                sig = f"trunc|{cl}|{where}"
                if sig not in seen:
                    seen.add(sig)
                    fails.append(Failure(cl, sig, f"msg={name} tree={tree!r:.300} :: {d}", case={"msg": name, "tree": tree, "only_cut": cut}))
        return Eval(fails, weight=max(1, len(data) - 1), nontrivial_count=nt, labels=[f"msg:{name}", "fault:truncation"])

    # ------------------------------------------------------------------ (b)-(e) structured faults
    def fault_ev(case):
        name, tree, fault = case["msg"], case["tree"], case["fault"]
        mi = schema.msg(f"ks.{name}")
        data = to_ref(schema, c.ref, mi.full_name, tree).SerializeToString(deterministic=True)
        recs = wire.parse_records(data)
        kind = fault["kind"]
        fails = []
        labs = [f"msg:{name}", f"fault:{kind}"]

        def add(cl, where, d):
            fails.append(Failure(cl, f"{kind}|{cl}|{where}", f"case={case!r:.500} :: {d}"))

        if not mi.fields and kind not in ("field0", "badwt", "varint_overflow", "corrupt"):
            return Eval([], discard="fault kind needs a message type with fields")
        if kind == "corrupt":
            # positions of tag and length bytes
            pos = []
            for r in recs:
                tl = len(wire.tag(r.number, r.wt))
                pos += list(range(r.start, r.start + tl))
                if r.wt == 2:
                    pos += list(range(r.start + tl, r.end - len(r.payload)))
            if not pos:
                return Eval([], discard="no tag/length byte to corrupt")
            p = pos[fault["pos"] % len(pos)]
            bad = data[:p] + bytes([fault["byte"]]) + data[p + 1:]
            if bad == data:
                return Eval([], discard="corruption is identity")
            status, res = decode(name, bad)
            tally(name, bad, status)
            for cl, where, d in validity(name, bad, status, res, "corrupt"):
                add(cl, where, d)
            labs.append(f"bp:{status}")
            return Eval(fails, nontrivial=True, labels=labs)

        if kind in ("field0", "badwt"):
            if kind == "field0":
                wt = fault["wt"] % 6 if fault["wt"] % 6 not in (3, 4) else 0
                payload = {0: 1, 1: b"\x00" * 8, 2: b"ab", 5: b"\x00" * 4}[wt]
                body = {0: wire.enc_varint(1), 1: payload, 2: b"\x02ab", 5: payload}[wt]
                # the tag of field number 0, minimal or written as a longer-than-necessary varint (80 00, 82 80 00 ...)
                rec = wire.tag(0, wt, pad_to=[0, 2, 3, 5][fault.get("tag_pad", 0) % 4]) + body
            else:
                n = fault["number"]
                rec = wire.tag(n, 6 + fault["wt"] % 2)
            at = fault["pos"] % (len(recs) + 1)
            bad = b"".join(r.raw for r in recs[:at]) + rec + b"".join(r.raw for r in recs[at:])
            status, res = decode(name, bad)
            tally(name, bad, status)
            if status == "ok":
                add("invalid_tag_accepted", "field_number_0" if kind == "field0" else "wire_type_6_7", f"input={bad.hex()[:160]}")
            return Eval(fails, nontrivial=True, labels=labs)

        if kind == "mismatch":
            fields = [f for f in mi.fields]
            fi = fields[fault["field"] % len(fields)]
            declared = wire_type_of(fi.type) if fi.card != "map" else 2
            choices = [w for w in (0, 1, 2, 5) if w != declared]
            if fi.card == "repeated" and declared != 2:
                choices = [w for w in choices if w != 2]  # LEN on a repeated packable scalar is the packed encoding
            wt = choices[fault["wt"] % len(choices)]
            payload = {0: fault["v"] % 1000, 1: bytes([fault["v"] % 256]) * 8, 5: bytes([fault["v"] % 256]) * 4, 2: [b"", b"abc", b"\x08\x01"][fault["v"] % 3]}[wt]
            rec = wire.make_record(fi.number, wt, payload)
            genuine = [i for i, r in enumerate(recs) if r.number == fi.number]
            if fault["after"] and genuine:
                at = genuine[-1] + 1
            elif genuine:
                at = genuine[0]
            else:
                at = fault["pos"] % (len(recs) + 1)
            bad = b"".join(r.raw for r in recs[:at]) + rec.raw + b"".join(r.raw for r in recs[at:])
            # the reference decides whether this pair counts as "kept as unknown field"
            want = norm(schema, mi, tree)
            try:
                rm = c.rf(name).FromString(bad)
                if norm(schema, mi, snap_ref(schema, mi, rm)) != want:
                    return Eval([], discard="reference does not treat this mismatch as an unknown field")
            except Exception:  # noqa: BLE001
                return Eval([], discard="reference rejects this mismatch")
            entry = ["parse", "FromString", "load", "load_size", "load_delimited"][fault.get("entry", 0) % 5]
            status, res = decode(name, bad, entry)
            tally(name, bad, status)
            where = f"{fi.kind}|got_wt{wt}|{'after' if fault['after'] and genuine else ('before' if genuine else 'absent')}|{entry}"
            if status != "ok":
                add("mismatch_raises", f"{where}|{type(res).__name__}", f"{res}; input={bad.hex()[:160]}")
            else:
                for cl, w2, d in validity(name, bad, status, res, "mismatch"):
                    add(cl, f"{where}|{w2}", d)
                got = known_snapshot(name, res)
                if got != want:
                    add("mismatch_alters_known_field", where, f"got={got!r:.200} want={want!r:.200} input={bad.hex()[:160]}")
                try:
                    if rec.raw not in bytes(res):
                        add("mismatch_not_kept_as_unknown", where, f"record {rec.raw.hex()} missing from re-encoding {bytes(res).hex()[:160]}")
                except Exception:  # noqa: BLE001 - already reported by validity()
                    pass
            labs.append(f"mismatch:{fi.kind}->wt{wt}")
            return Eval(fails, nontrivial=True, labels=labs)

        if kind == "varint_overflow":
            # a ten-byte varint whose last byte carries bits beyond the 64th (02..7f instead of 00 / 01) as the VALUE of a
            # varint field - singular, an element of a packed list, or unknown: whatever the decoder makes of it (the
            # reference rejects it; masking or keeping the big integer are both "a value of the declared type"), the
            # message it returns must be encodable again
            def big():
                return bytes([0x80 | ((fault["v"] >> (7 * j)) & 0x7F) for j in range(9)]) + bytes([2 + fault["top"] % 126])

            vfields = [f for f in mi.fields if f.card in ("single", "optional", "repeated") and f.type in ("int32", "int64", "uint32", "uint64", "sint32", "sint64", "bool", "enum")]
            if vfields and fault["where"] % 4 != 3:
                fi = vfields[fault["field"] % len(vfields)]
                if fi.card == "repeated" and fault["where"] % 4 == 1:
                    rec = wire.tag(fi.number, 2) + wire.enc_varint(11) + b"\x01" + big()  # packed: [1, <overflowing>]
                    where = f"packed|{fi.type}"
                else:
                    rec = wire.tag(fi.number, 0) + big()
                    where = f"{fi.card}|{fi.type}"
            else:
                used = {f.number for f in mi.fields}
                rec = wire.tag([n for n in (9999, 19, 1000, 77) if n not in used][0], 0) + big()
                where = "unknown_field"
            at = fault["pos"] % (len(recs) + 1)
            bad = b"".join(r.raw for r in recs[:at]) + rec + b"".join(r.raw for r in recs[at:])
            entry = ["parse", "FromString", "load", "load_size", "load_delimited"][fault.get("entry", 0) % 5]
            status, res = decode(name, bad, entry)
            tally(name, bad, status)
            for cl, w2, d in validity(name, bad, status, res, "varint_overflow"):
                add(cl, f"{where}|{w2}", d)
            if status == "ok":
                try:
                    if len(res) != len(bytes(res)):
                        add("returned_message_len_differs", where, f"len={len(res)} bytes={len(bytes(res))} input={bad.hex()[:160]}")
                except Exception as e:  # noqa: BLE001
                    add("returned_message_not_sizable", f"{where}|{type(e).__name__}", f"{e}; input={bad.hex()[:160]}")
            labs += [f"varint_overflow:{where.split('|')[0]}", f"bp:{status}"]
            return Eval(fails, nontrivial=True, labels=labs)

        if kind == "inner_invalid":
            # a well-formed outer LEN record of a message-typed field (also of a type WITHOUT fields) whose payload holds
            # something no message can contain: field number 0, wire type 6 / 7, a stray end-group marker, a record cut
            # short by the end of the payload.  Judged where the reference rejects the input too.
            mfields = [f for f in mi.fields if f.card in ("single", "optional", "repeated") and f.type == "message" and f.wkt is None]
            empties = [f for f in mfields if not schema.msg(f.msg).fields]
            if not mfields:
                return Eval([], discard="no message-typed field")
            fi = (empties if empties and fault["prefer_fieldless"] else mfields)[fault["field"] % len(empties if empties and fault["prefer_fieldless"] else mfields)]
            sub = schema.msg(fi.msg)
            own = b"".join(r.payload for r in recs if r.number == fi.number and r.wt == 2)[:0]  # (content of its own is not needed)
            junk = [wire.tag(0, 0) + b"\x01", wire.tag(0, 2) + b"\x01a", wire.tag(3, 6), wire.tag(1, 7), wire.tag(5, 4), b"\x08\x80", b"\x12\x05ab", b"\x0d\x01\x02",
                    wire.tag(7, 3), b"\x80"][fault["what"] % 10]
            lead = wire.make_record(9999, 0, 5).raw if fault["lead"] else b""
            payload = own + lead + junk
            rec = wire.make_record(fi.number, 2, payload).raw
            at = fault["pos"] % (len(recs) + 1)
            bad = b"".join(r.raw for r in recs[:at]) + rec + b"".join(r.raw for r in recs[at:])
            labs.append(f"inner_invalid:{'fieldless' if not sub.fields else 'with_fields'}")
            if ref_accepts(name, bad):
                return Eval([], discard="reference accepts this inner payload", labels=labs)
            entry = ["parse", "FromString", "load", "load_size", "load_delimited"][fault.get("entry", 0) % 5]
            status, res = decode(name, bad, entry)
            tally(name, bad, status)
            if status == "ok":
                add("invalid_inner_payload_accepted", f"{'fieldless' if not sub.fields else 'with_fields'}|what{fault['what'] % 10}", f"{fi.name} payload={payload.hex()} input={bad.hex()[:200]}")
            return Eval(fails, nontrivial=True, labels=labs)

        if kind == "inner_truncation":
            # a well-formed outer LEN record whose payload is a proper prefix of the original sub-message /
            # packed payload, cut in the middle of an inner record / element (length prefix adjusted)
            cands = []
            for r in recs:
                fi = mi.by_number(r.number)
                if fi is None or r.wt != 2 or len(r.payload) < 2:
                    continue
                if fi.card == "repeated" and wire_type_of(fi.type) != 2:
                    inner_bounds, pos_ = {0}, 0
                    for wt_, p_ in wire._elements_of_packed(fi.type, r.payload):
                        pos_ += len(wire.payload_bytes(wt_, p_))
                        inner_bounds.add(pos_)
                    cands.append((r, fi, inner_bounds, "packed"))
                elif fi.type == "message" and fi.card != "map":
                    try:
                        cands.append((r, fi, set(wire.record_boundaries(r.payload)), "submessage"))
                    except wire.WireError:
                        pass
            cands = [(r, fi, b, k) for r, fi, b, k in cands if any(x not in b for x in range(1, len(r.payload)))]
            if not cands:
                return Eval([], discard="no structured LEN payload to cut")
            r, fi, inner_bounds, what = cands[fault["field"] % len(cands)]
            mids = [x for x in range(1, len(r.payload)) if x not in inner_bounds]
            cut = mids[fault["pos"] % len(mids)]
            new_rec = wire.make_record(r.number, 2, r.payload[:cut])
            bad = b"".join((new_rec.raw if x is r else x.raw) for x in recs)
            status, res = decode(name, bad)
            tally(name, bad, status)
            if status == "ok":
                add("inner_truncated_payload_accepted", f"{what}|{fi.kind}", f"payload cut at {cut}/{len(r.payload)}; input={bad.hex()[:200]}")
            labs.append(f"inner_truncation:{what}")
            return Eval(fails, nontrivial=True, labels=labs)

        if kind == "group":
            used = {f.number for f in mi.fields}
            known_group = fault["known_number"] and mi.fields
            gnum = mi.fields[fault["field"] % len(mi.fields)].number if known_group else [n for n in (9999, 19, 1000, 77) if n not in used][0]
            inner = []
            for j in range(1 + fault["n_inner"] % 3):
                f2 = mi.fields[(fault["field"] + j + 1) % len(mi.fields)] if mi.fields else None
                if f2 is None:
                    break
                wt2 = wire_type_of(f2.type) if f2.card != "map" else 2
                p2 = {0: 123, 1: b"\x07" * 8, 5: b"\x07" * 4, 2: b"zz"}[wt2]
                inner.append(wire.make_record(f2.number, wt2, p2).raw)
            nest = fault.get("nest", 0)
            if nest:
                # a group inside the group: with the SAME number (1) or another one (2); the records after the inner group
                # still belong to the outer one
                inum = gnum if nest == 1 else [n for n in (9998, 18, 1001, 78) if n not in used and n != gnum][0]
                half = len(inner) // 2
                grp = wire.tag(gnum, 3) + wire.tag(inum, 3) + b"".join(inner[:half]) + wire.tag(inum, 4) + b"".join(inner[half:]) + wire.tag(gnum, 4)
            else:
                grp = wire.tag(gnum, 3) + b"".join(inner) + wire.tag(gnum, 4)
            at = fault["pos"] % (len(recs) + 1)
            if fault.get("unterminated"):
                # the outer end marker is missing and the input ends there: a group cut in the middle
                bad = b"".join(r.raw for r in recs) + grp[: -len(wire.tag(gnum, 4))]
                labs.append(f"group_unterminated:nest{nest}")
                try:
                    c.rf(name).FromString(bad)
                    return Eval([], discard="reference accepts an unterminated group")
                except Exception:  # noqa: BLE001
                    pass
                entry = ["parse", "FromString", "load", "load_size", "load_delimited"][fault.get("entry", 0) % 5]
                status, res = decode(name, bad, entry)
                tally(name, bad, status)
                if status == "ok":
                    add("unterminated_group_accepted", f"nest{nest}|{entry}", f"input={bad.hex()[:200]} decoded={known_snapshot(name, res)!r:.200}")
                return Eval(fails, nontrivial=True, labels=labs)
            bad = b"".join(r.raw for r in recs[:at]) + grp + b"".join(r.raw for r in recs[at:])
            want = norm(schema, mi, tree)
            try:
                rm = c.rf(name).FromString(bad)
                if norm(schema, mi, snap_ref(schema, mi, rm)) != want:
                    return Eval([], discard="reference lets this group alter known fields")
            except Exception:  # noqa: BLE001
                return Eval([], discard="reference rejects this group")
            entry = ["parse", "FromString", "load", "load_size", "load_delimited"][fault.get("entry", 0) % 5]
            status, res = decode(name, bad, entry)
            tally(name, bad, status)
            where = ("known_number" if known_group else "unknown_number") + "|" + entry
            if status != "ok":
                add("group_raises", f"{where}|{type(res).__name__}", f"{res}; input={bad.hex()[:160]}")
            if status == "ok":
                for cl, w2, d in validity(name, bad, status, res, "group"):
                    add(cl, f"{where}|{w2}", d)
                got = known_snapshot(name, res)
                if got != want:
                    add("group_alters_known_field", where, f"got={got!r:.200} want={want!r:.200} input={bad.hex()[:160]}")
            labs.append(f"group:{where}:{status}")
            return Eval(fails, nontrivial=True, labels=labs)
        if kind == "huge_tag":
            # a tag varint with bits above bit 31 set: its field number is far outside the schema; whatever the decoder
            # makes of it (the reference rejects it), it is not one of the known fields and must not touch them
            cands = [r for r in recs if mi.by_number(r.number) is not None and r.wt in (0, 1, 2, 5)]
            if not cands:
                return Eval([], discard="no known record to alias")
            r = cands[fault["field"] % len(cands)]
            fi = mi.by_number(r.number)
            base = (r.number << 3) | r.wt
            k = [1, 2, 3, 2**10, 2**20, 2**31 - 1][fault["k"] % 6]
            body = r.raw[len(wire.tag(r.number, r.wt)):]
            other = {0: b"\x07", 1: b"\x07" * 8, 5: b"\x07" * 4, 2: b"\x01z"}[r.wt] if fault["own_payload"] else body
            extra = wire.enc_varint(base | (k << 32)) + other
            at = fault["pos"] % (len(recs) + 1)
            bad = b"".join(x.raw for x in recs[:at]) + extra + b"".join(x.raw for x in recs[at:])
            want = norm(schema, mi, tree)
            entry = ["parse", "FromString", "load", "load_size", "load_delimited"][fault.get("entry", 0) % 5]
            status, res = decode(name, bad, entry)
            tally(name, bad, status)
            if status == "ok":
                got = known_snapshot(name, res)
                if got != want:
                    add("out_of_range_tag_alters_known_field", f"{fi.kind}|{entry}", f"got={got!r:.200} want={want!r:.200} input={bad.hex()[:200]}")
                for cl, w2, d in validity(name, bad, status, res, "huge_tag"):
                    add(cl, f"huge_tag|{w2}", d)
            labs.append(f"huge_tag:{status}")
            return Eval(fails, nontrivial=True, labels=labs)

        if kind == "bad_utf8":
            # a string field whose payload is not valid UTF-8 while all framing is intact: rejected, or - if a message is
            # returned - the field still re-encodes to the payload that was received (never a silently altered text)
            cands = [(r, mi.by_number(r.number)) for r in recs if mi.by_number(r.number) is not None and r.wt == 2
                     and mi.by_number(r.number).type == "string" and mi.by_number(r.number).card != "map" and mi.by_number(r.number).wkt is None]
            if not cands:
                # no string field in the value: append an occurrence of one the schema declares
                sf = [f for f in mi.fields if f.type == "string" and f.card != "map" and f.wkt is None]
                if not sf:
                    return Eval([], discard="no string field")
                f0 = sf[fault["field"] % len(sf)]
                extra_rec = wire.make_record(f0.number, 2, b"ok")
                recs = recs + [extra_rec]
                cands = [(extra_rec, f0)]
            r, fi = cands[fault["field"] % len(cands)]
            tail = [b"\xc3", b"ab\xe2\x82", b"\xf0\x9f\x98", b"\x80", b"a\xffb", b"\xc0\xaf", b"\xed\xa0\x80", b"\xf4\x90\x80\x80"][fault["what"] % 8]
            payload = (r.payload if fault.get("keep_prefix") else b"") + tail
            new_rec = wire.make_record(r.number, 2, payload)
            bad = b"".join((new_rec.raw if x is r else x.raw) for x in recs)
            entry = ["parse", "FromString", "load", "load_size", "load_delimited"][fault.get("entry", 0) % 5]
            status, res = decode(name, bad, entry)
            tally(name, bad, status)
            if status == "ok":
                try:
                    out_recs = [x for x in wire.parse_records(bytes(res)) if x.number == r.number and x.wt == 2]
                    if not any(x.payload == payload for x in out_recs):
                        add("malformed_text_silently_altered", f"{fi.kind}|tail{fault['what'] % 8}|{entry}", f"payload {payload.hex()} came back as {[x.payload.hex() for x in out_recs]} input={bad.hex()[:160]}")
                except Exception as e:  # noqa: BLE001
                    add("malformed_text_result_not_encodable", f"{fi.kind}|{type(e).__name__}", f"{e}; input={bad.hex()[:160]}")
            labs.append(f"bad_utf8:{status}")
            return Eval(fails, nontrivial=True, labels=labs)

        if kind == "bad_in_group":
            # a (skipped) group whose CONTENT is malformed: the same rules as at the top level apply inside it
            used = {f.number for f in mi.fields}
            gnum = [n for n in (9999, 19, 1000, 77) if n not in used][0]
            what = ["wire_type_6", "wire_type_7", "field_number_0", "never_closed", "closed_by_other_number", "inner_len_overruns"][fault["what"] % 6]
            good = wire.make_record(5, 0, 7).raw if fault.get("lead") else b""
            end = wire.tag(gnum, 4)
            piece = {"wire_type_6": wire.tag(3, 6), "wire_type_7": wire.tag(3, 7) + b"\x01", "field_number_0": wire.tag(0, 0) + b"\x01",
                     "never_closed": b"", "closed_by_other_number": b"", "inner_len_overruns": wire.tag(4, 2) + b"\x7f" + b"ab"}[what]
            if what == "never_closed":
                end = b""
            elif what == "closed_by_other_number":
                end = wire.tag(gnum + 1, 4)
            depth2 = fault.get("nest")
            body = good + piece
            if depth2:  # the malformed part sits in a group nested inside the group
                body = wire.tag(gnum + 2, 3) + body + (wire.tag(gnum + 2, 4) if what not in ("never_closed",) else b"")
            grp = wire.tag(gnum, 3) + body + end
            at = fault["pos"] % (len(recs) + 1)
            # (never_closed / overrun at the very end only, else the following records merely become group content)
            if what in ("never_closed", "inner_len_overruns"):
                at = len(recs)
            bad = b"".join(r.raw for r in recs[:at]) + grp + b"".join(r.raw for r in recs[at:])
            try:
                c.rf(name).FromString(bad)
                return Eval([], discard="reference accepts this malformed group")
            except Exception:  # noqa: BLE001
                pass
            entry = ["parse", "FromString", "load", "load_size", "load_delimited"][fault.get("entry", 0) % 5]
            status, res = decode(name, bad, entry)
            tally(name, bad, status)
            if status == "ok":
                add("malformed_group_accepted", f"{what}|{'nested' if depth2 else 'flat'}|{entry}", f"input={bad.hex()[:200]}")
            labs.append(f"bad_in_group:{what}:{status}")
            return Eval(fails, nontrivial=True, labels=labs)
        raise AssertionError(kind)

    # ------------------------------------------------------------------ (f) random bytes
    def random_ev(case):
        name, data = case["msg"], case["b"]
        status, res = decode(name, data)
        tally(name, data, status)
        fails = [Failure(cl, f"random|{cl}|{w}", f"msg={name} input={data.hex()} :: {d}") for cl, w, d in validity(name, data, status, res, "random")]
        try:
            wire.parse_records(data)
            wf = "wellformed"
        except wire.WireError:
            wf = "malformed"
        return Eval(fails, nontrivial=len(data) > 0, labels=[f"msg:{name}", f"random:{wf}:{status}"])

    ts = cm.tree_strats(c, max_fields=4, max_depth=1)

    @st.composite
    def valued(draw):
        name = draw(st.sampled_from(NAMES))
        return {"msg": name, "tree": draw(ts.message(f"ks.{name}"))}

    fault = st.one_of(
        st.fixed_dictionaries({"kind": st.just("corrupt"), "pos": st.integers(0, 200), "byte": st.integers(0, 255)}),
        st.fixed_dictionaries({"kind": st.just("field0"), "wt": st.integers(0, 5), "pos": st.integers(0, 20), "tag_pad": st.integers(0, 3)}),
        st.fixed_dictionaries({"kind": st.just("badwt"), "wt": st.integers(0, 1), "number": st.sampled_from([1, 2, 3, 16, 9999]), "pos": st.integers(0, 20)}),
        st.fixed_dictionaries({"kind": st.just("mismatch"), "field": st.integers(0, 40), "wt": st.integers(0, 3), "v": st.integers(0, 999), "after": st.booleans(), "pos": st.integers(0, 20), "entry": st.integers(0, 4)}),
        st.fixed_dictionaries({"kind": st.just("mismatch"), "field": st.integers(0, 40), "wt": st.integers(0, 3), "v": st.integers(0, 999), "after": st.booleans(), "pos": st.integers(0, 20), "entry": st.integers(0, 4)}),
        st.fixed_dictionaries({"kind": st.just("group"), "field": st.integers(0, 40), "known_number": st.booleans(), "n_inner": st.integers(0, 5), "pos": st.integers(0, 20), "entry": st.integers(0, 4),
                               "nest": st.sampled_from([0, 0, 1, 1, 2]), "unterminated": st.sampled_from([False, False, True])}),
        st.fixed_dictionaries({"kind": st.just("inner_truncation"), "field": st.integers(0, 40), "pos": st.integers(0, 200)}),
        st.fixed_dictionaries({"kind": st.just("varint_overflow"), "field": st.integers(0, 40), "where": st.integers(0, 3), "v": st.integers(0, 2**63 - 1), "top": st.integers(0, 125), "pos": st.integers(0, 20), "entry": st.integers(0, 4)}),
        st.fixed_dictionaries({"kind": st.just("inner_invalid"), "field": st.integers(0, 40), "what": st.integers(0, 9), "lead": st.booleans(), "prefer_fieldless": st.booleans(), "pos": st.integers(0, 20), "entry": st.integers(0, 4)}),
        st.fixed_dictionaries({"kind": st.just("huge_tag"), "field": st.integers(0, 40), "k": st.integers(0, 5), "own_payload": st.booleans(), "pos": st.integers(0, 20), "entry": st.integers(0, 4)}),
        st.fixed_dictionaries({"kind": st.just("bad_utf8"), "field": st.integers(0, 40), "what": st.integers(0, 7), "keep_prefix": st.booleans(), "entry": st.integers(0, 4)}),
        st.fixed_dictionaries({"kind": st.just("bad_in_group"), "what": st.integers(0, 5), "lead": st.booleans(), "nest": st.booleans(), "pos": st.integers(0, 20), "entry": st.integers(0, 4)}),
    )

    # values rich in packed lists of multi-byte elements and in sub-messages (targets of inner truncation)
    rich = st.one_of(
        st.fixed_dictionaries({}, optional={
            "r_uint64": st.lists(st.sampled_from([300, 2**40, 2**64 - 1, 1]), min_size=1, max_size=4),
            "r_int32": st.lists(st.sampled_from([-1, 128, 5]), min_size=1, max_size=3),
            "r_sint64": st.lists(st.sampled_from([-(2**40), 70000]), min_size=1, max_size=3),
            "r_double": st.lists(st.just(1.5), min_size=1, max_size=2),
            "r_fixed32": st.lists(st.just(7), min_size=1, max_size=3),
            "r_color": st.lists(st.sampled_from([-1, 1000]), min_size=1, max_size=3),
            "r_leaf": st.lists(st.just({"i": 300, "s": "ab"}), min_size=1, max_size=2),
        }).map(lambda t: {"msg": "Repeats", "tree": t}),
        st.just({"msg": "Scalars", "tree": {"f_leaf": {"i": 70000, "s": "xyz"}, "f_rec": {"rec": {"i32": 300}, "leaf": {"s": "q"}}}}),
        st.just({"msg": "Rec", "tree": {"kids": [{"i32": 1000, "leaf": {"i": 3}}], "rec": {"kids": [{"i32": 2}]}}}),
    )

    @st.composite
    def inner_cases(draw):
        case = dict(draw(rich))
        case["fault"] = {"kind": "inner_truncation", "field": draw(st.integers(0, 40)), "pos": draw(st.integers(0, 200))}
        return case

    @st.composite
    def faulted(draw):
        case = dict(draw(valued()))
        case["fault"] = draw(fault)
        return case

    rnd = st.tuples(st.sampled_from(NAMES), st.one_of(st.binary(max_size=24), st.binary(max_size=200))).map(lambda t: {"msg": t[0], "b": t[1]})

    # ---- coverage-guided campaign (thorough tier): atheris/libFuzzer on Message.parse with the oracle in the target
    def fuzz_cases():
        if not ctx.thorough:
            return
        from .. import fuzz

        if not fuzz.available():
            ctx.extra["atheris"] = "not installed: campaign skipped (inconclusive)"
            return
        for corpus_kind in ("empty", "seeded"):
            yield {"fuzz": "parse", "corpus": corpus_kind, "runs": 150000, "seed": ctx.seed * 100 + ctx.shard}

    def fuzz_ev(case):
        from .. import fuzz

        if "crash" in case:  # replay of one crash input
            data = case["crash"]
            name = fuzz_names[data[0] % len(fuzz_names)] if data else "Leaf"
            return random_ev({"msg": name, "b": data[1:]})
        seeds = []
        if case["corpus"] == "seeded":
            for i, name in enumerate(fuzz_names):
                mi = schema.msg(f"ks.{name}")
                for tree in ({}, {f.name: (1 if f.type in ("int32", "int64", "uint32", "uint64", "sint32", "sint64", "fixed32", "fixed64", "sfixed32", "sfixed64", "enum") else None) for f in mi.fields[:3]}):
                    tree = {k: v for k, v in tree.items() if v is not None}
                    try:
                        seeds.append(bytes([i]) + to_ref(schema, c.ref, mi.full_name, tree).SerializeToString())
                    except Exception:  # noqa: BLE001
                        pass
        execs, crashes, log = fuzz.run_campaign("fuzz_parse.py", case["runs"], case["seed"], seeds, tag=f"parse_{case['corpus']}_{ctx.shard}")
        fails = []
        for data in crashes[:5]:
            name = fuzz_names[data[0] % len(fuzz_names)] if data else "Leaf"
            sub = random_ev({"msg": name, "b": data[1:]})
            for f in sub.failures:
                f.case = {"crash": data}
                fails.append(f)
            if not sub.failures:
                fails.append(Failure("fuzz_target_oracle", "fuzz|target_oracle_violation", f"input={data.hex()[:200]} log={log[-300:]}", case={"crash": data}))
        ctx.extra.setdefault("fuzz_campaigns", {})[f"{case['corpus']}[{ctx.shard}]"] = {"executions": execs, "crashes": len(crashes)}
        return Eval(fails, weight=max(1, execs), nontrivial_count=execs, labels=[f"fuzz:{case['corpus']}"])

    fuzz_names = ["Scalars", "Optionals", "Repeats", "Maps", "Oneofs", "Wrappers", "Times", "Tags", "Rec", "Leaf", "Mixed"]

    # ---- payloads beyond 64 KiB: a cut far behind the start of a length-delimited payload
    def big_cases():
        for kind in ("bytes", "string", "nested", "packed"):
            for n in (65536 + 17, 70000, 131072 + 5):
                yield {"big": kind, "n": n}

    def big_ev(case):
        kind, n = case["big"], case["n"]
        if kind == "bytes":
            name, tree = "Scalars", {"f_int32": 5, "f_bytes": b"\x07" * n, "f_bool": True}
        elif kind == "string":
            name, tree = "Scalars", {"f_int32": 5, "f_string": "s" * n, "f_bool": True}
        elif kind == "nested":
            name, tree = "Scalars", {"f_int32": 5, "f_leaf": {"i": 1, "s": "n" * n}, "f_bool": True}
        else:
            name, tree = "Repeats", {"r_int32": [1], "r_fixed64": [9] * (n // 8), "r_string": ["z"]}
        mi = schema.msg(f"ks.{name}")
        data = to_ref(schema, c.ref, mi.full_name, tree).SerializeToString(deterministic=True)
        bounds = set(wire.record_boundaries(data))
        cuts = sorted({len(data) - d for d in (1, 2, 3, 5, 9, 100)} | {65535, 65536, 65537, 65600, 66000, len(data) // 2, len(data) - 4097} | set(range(4096, len(data), 8192)))
        fails, seen, nt = [], set(), 0
        for cut in cuts:
            if not (0 < cut < len(data)) or cut in bounds:
                continue
            nt += 1
            for entry in ("parse", "load"):
                status, res = decode(name, data[:cut], entry)
                if status == "ok":
                    sig = f"trunc|truncated_record_accepted|big_{kind}|{entry}"
                    if sig not in seen:
                        seen.add(sig)
                        fails.append(Failure("truncated_record_accepted", sig, f"{kind} payload of {n} bytes cut at {cut}/{len(data)} was decoded: {known_snapshot(name, res)!r:.160}", case=dict(case)))
        return Eval(fails, weight=max(1, nt), nontrivial_count=nt, labels=[f"big_payload:{kind}"])

    return [
        Target("big_payload_truncation", big_ev, cases=big_cases, exhaustive=True,
               rule="bytes / string / nested / packed payloads of 64 KiB+17, 70000 and 128 KiB+5 bytes cut behind the first 64 KiB, every 8 KiB and near the end: must be rejected"),
        Target("atheris_parse_campaign", fuzz_ev, cases=fuzz_cases, exhaustive=False, shard_cases=False, quick=10**9, thorough=10**9, time_thorough=3000),
        Target("truncation_all_cuts", trunc_ev, strategy=valued(), quick=100, thorough=2000, time_quick=60),
        Target("structured_faults", fault_ev, poison=_poison_fn, strategy=faulted(), quick=700, thorough=8000, time_quick=60),
        Target("inner_truncation", fault_ev, poison=_poison_fn, strategy=inner_cases(), quick=200, thorough=3000, time_quick=40),
        Target("random_bytes", random_ev, poison=_poison_fn, strategy=rnd, quick=1200, thorough=20000, time_quick=40),
    ]
