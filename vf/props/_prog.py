"""In-place histories ("programs") over one original message and its copies, judged against tree models.

The original is built from a value tree and is NOT looked at until a step says so; copies (deepcopy / pickle / copy)
get a model of their own; mutations are in-place operations through lazily created members (m.a.b.items.append(x),
m.a.tags[k] = v, m.a.b.x = v) applied to an object and to its model alone. A `check` compares an object with its model
through public observers, the reference decoder and an independently built twin. At the end every live object is
checked and a fresh instance of every class involved must still be empty (shared-default pollution)."""
from __future__ import annotations

import copy
import pickle

from hypothesis import strategies as st

from ..engine import Guarded, guard
from ..values import BPAdapter, BPInfo, norm, snap_bp, snap_ref, to_ref, tree_diff
from .c06 import nondefault


def unshare(t):
    """Copy of a tree in which no two positions share an object (Hypothesis may hand out one {} several times)."""
    if isinstance(t, dict):
        return {k: unshare(v) for k, v in t.items()}
    if isinstance(t, (list, tuple)):
        return [unshare(v) for v in t]
    return t


def mutable_paths(schema, mi, depth=3, prefix=()):
    """[(path of field names through plain singular sub-messages, terminal FI, kind)]"""
    out = []
    for fi in mi.fields:
        p = prefix + (fi.name,)
        if fi.card == "repeated":
            out.append((p, fi, "append"))
        elif fi.card == "map":
            out.append((p, fi, "setitem"))
        elif fi.type == "message" and fi.wkt is None:
            if fi.card == "single" and not fi.oneof and depth > 0:
                out += mutable_paths(schema, schema.msg(fi.msg), depth - 1, p)
        elif fi.card in ("single", "optional") and fi.wkt is None:
            out.append((p, fi, "set"))
    return out


def apply_model(schema, mi, tree, path, fi, kind, key, value):
    """The same operation on the tree model (in place; intermediate dicts are created)."""
    t, m = tree, mi
    for name in path[:-1]:
        f = m.by_name(name)
        t = t.setdefault(name, {})
        m = schema.msg(f.msg)
    name = path[-1]
    if kind == "append":
        t.setdefault(name, [])
        t[name] = list(t[name]) + [value]
    elif kind == "setitem":
        pairs = [list(kv) for kv in (t.get(name) or [])]
        pairs = [kv for kv in pairs if kv[0] != key] + [[key, value]]
        t[name] = pairs
    else:
        if fi.oneof:
            for g in m.fields:
                if g.oneof == fi.oneof:
                    t.pop(g.name, None)
        t[name] = value


def apply_real(schema, adapter, obj, mi, path, fi, kind, key, value):
    o, m = obj, mi
    for name in path[:-1]:
        f = m.by_name(name)
        o = getattr(o, BPInfo.of(type(o)).pyname(f))
        m = schema.msg(f.msg)
    info = BPInfo.of(type(o))
    pyname = info.pyname(fi)
    ec = info.elem_class(fi)
    if kind == "append":
        getattr(o, pyname).append(adapter.single(ec, fi, value, False))
    elif kind == "setitem":
        getattr(o, pyname)[key] = adapter.single(ec, fi.val, value, False)
    else:
        setattr(o, pyname, adapter.single(ec, fi, value, False))


def strategy(c, names, observers, recursive_types=()):
    schema = c.schema
    from . import _common as cm

    base = cm.msg_tree_strategy(c, names=names, max_fields=3)

    @st.composite
    def s(draw):
        case = dict(draw(base))
        if draw(st.integers(0, 2)) == 0:
            case["tree"] = {}
        mi = schema.msg(f"ks.{case['msg']}")
        paths = mutable_paths(schema, mi)
        steps = []
        n_obj = 1
        for _ in range(draw(st.integers(1, 7))):
            k = draw(st.sampled_from(["mut", "mut", "mut", "copy", "copy", "observe", "check", "merge_unknown"]))
            if k == "mut" and paths:
                i = draw(st.integers(0, len(paths) - 1))
                steps.append({"op": "mut", "on": draw(st.integers(0, n_obj - 1)), "path": i, "alt": draw(st.integers(0, 3))})
            elif k == "copy":
                steps.append({"op": "copy", "of": draw(st.integers(0, n_obj - 1)), "kind": draw(st.sampled_from(["deepcopy", "pickle", "pickle", "copy"]))})
                n_obj += 1
            elif k == "observe":
                obs = draw(st.sampled_from(observers))
                if case["msg"] in recursive_types and obs.endswith("_defaults"):
                    obs = "to_dict_camel"
                steps.append({"op": "observe", "on": draw(st.sampled_from(["scratch", "scratch", 0] + list(range(n_obj)))), "what": obs})
            elif k == "merge_unknown":
                # more wire data is decoded INTO the object (parse / load merge): records of numbers the class does not know
                steps.append({"op": "merge_unknown", "on": draw(st.integers(0, n_obj - 1)), "how": draw(st.sampled_from(["parse", "load", "load_delimited"])),
                              "n": draw(st.integers(1, 3)), "checked_before": draw(st.booleans())})
            else:
                steps.append({"op": "check", "on": draw(st.integers(0, n_obj - 1))})
        case["steps"] = steps
        return case

    return s()


def run(c, case, observe):
    """-> list of (clause, detail). `observe(m, equal, what)` is the property's observer table."""
    schema = c.schema
    adapter = BPAdapter(schema)
    name = case["msg"]
    cls = c.bp(name)
    mi = schema.msg(f"ks.{name}")
    paths = mutable_paths(schema, mi)
    out = []
    objs = []  # [obj, model, shallow_of (index or None), label]

    def check(i, when):
        obj, model, _, label = objs[i]
        want = norm(schema, mi, model)
        got = norm(schema, mi, guard("snapshot", snap_bp, schema, mi, obj, "sow_or_content"))
        if got != want:
            out.append((f"object_differs_from_model|{label}", f"{when}: object {i} vs the model of its history: {tree_diff(got, want)}"))
            return False
        b = guard("bytes", bytes, obj)
        try:
            r = norm(schema, mi, snap_ref(schema, mi, c.rf(name).FromString(b)))
        except Exception as e:  # noqa: BLE001
            r = ("reference rejects", str(e))
        if r != want:
            out.append((f"bytes_differ_from_model|{label}", f"{when}: object {i} as the reference decodes its bytes vs the model of its history: {tree_diff(r, want) if isinstance(r, dict) else r}"))
            return False
        if guard("len", len, obj) != len(b):
            out.append((f"len_differs|{label}", f"{when}: len {len(obj)} bytes {len(b)}"))
        # as a SIZE_DELIMITED frame followed by another one: the prefix is the size NOW, the frame reads back alone
        from io import BytesIO

        import betterproto

        from .. import wire

        s_ = BytesIO()
        guard("dump_delimited", obj.dump, s_, betterproto.SIZE_DELIMITED)
        if s_.getvalue() != wire.enc_varint(len(b)) + b:
            out.append((f"delimited_frame_differs|{label}", f"{when}: frame {s_.getvalue().hex()[:80]} for bytes {b.hex()[:80]}"))
        else:
            s2 = BytesIO(s_.getvalue() + b"\x08\x01")
            back = guard("load_delimited", type(obj)().load, s2, betterproto.SIZE_DELIMITED)
            if guard("bytes_back", bytes, back) != b or s2.tell() != len(s_.getvalue()):
                out.append((f"delimited_frame_reads_back_differently|{label}", f"{when}: object {i}"))
        twin = adapter.build(cls, mi, model)
        if guard("eq_twin", lambda: obj == twin) is not True or guard("eq_twin2", lambda: twin == obj) is not True:
            # (a twin built by the constructor carries presence flags the in-place history does not: compare content)
            if guard("bytes_twin", bytes, twin) != b:
                out.append((f"not_equal_to_twin|{label}", f"{when}: object {i} != message built from its model {want!r:.300}"))
                return False
        return True

    try:
        objs.append([guard("build", adapter.build, cls, mi, case["tree"]), unshare(case["tree"]), None, "original"])
        for k, st_ in enumerate(case["steps"]):
            op = st_["op"]
            if op == "mut":
                i = st_["on"]
                if objs[i][2] is not None or objs[i][0] is None:
                    continue  # in-place mutation of a shallow copy may legitimately show in its source: not generated
                path, fi, kind = paths[st_["path"] % len(paths)]
                tfi = fi.val if kind == "setitem" else fi
                value = nondefault(schema, tfi)
                if st_["alt"] and tfi.type in ("int32", "int64", "sint32", "uint32"):
                    value = 100 + st_["alt"]
                key = nondefault(schema, fi.key) if kind == "setitem" else None
                if kind == "setitem" and st_["alt"] % 2 and fi.key.type == "string":
                    key = "k%d" % st_["alt"]
                guard("mutate", apply_real, schema, adapter, objs[i][0], mi, path, fi, kind, key, value)
                apply_model(schema, mi, objs[i][1], path, fi, kind, key, value)
                # a shallow copy taken earlier shares containers with this object: its model is no longer defined
                stale = {i}
                grew = True
                while grew:  # shallow copies of shallow copies share the same containers
                    grew = False
                    for j, o in enumerate(objs):
                        if o[2] in stale and j not in stale:
                            stale.add(j)
                            grew = True
                for j in stale - {i}:
                    objs[j][1] = None
            elif op == "copy":
                src = objs[st_["of"]]
                if src[1] is None:
                    objs.append([None, None, None, "skipped"])
                    continue
                kind = st_["kind"]
                if kind == "deepcopy":
                    cp = guard("deepcopy", copy.deepcopy, src[0])
                elif kind == "pickle":
                    cp = guard("pickle", lambda: pickle.loads(pickle.dumps(src[0])))
                else:
                    cp = guard("copy", copy.copy, src[0])
                objs.append([cp, unshare(src[1]), st_["of"] if kind == "copy" else None, kind])
            elif op == "merge_unknown":
                i = st_["on"]
                if i >= len(objs) or objs[i][1] is None or objs[i][0] is None:
                    continue
                if st_.get("checked_before") and not check(i, f"step {k} (before the merge)"):
                    return out
                from io import BytesIO

                import betterproto

                from .. import wire

                used = {f.number for f in mi.fields}
                nums = [x for x in (9999, 19, 1000, 2**28 + 1, 77, 31) if x not in used]
                data = b"".join(wire.make_record(nums[j % len(nums)], (0, 2, 5)[j % 3], (300, b"unknown", b"\x01\x02\x03\x04")[j % 3]).raw for j in range(st_["n"]))
                if st_["how"] == "parse":
                    guard("merge_parse", objs[i][0].parse, data)
                elif st_["how"] == "load":
                    guard("merge_load", objs[i][0].load, BytesIO(data))
                else:
                    guard("merge_load_delimited", objs[i][0].load, BytesIO(wire.enc_varint(len(data)) + data), betterproto.SIZE_DELIMITED)
                # the model (known fields) is unchanged; what the object encodes to grew by exactly these records
            elif op == "observe":
                on = st_["on"]
                target = cls() if on == "scratch" else (objs[on][0] if on < len(objs) and objs[on][0] is not None else objs[0][0])
                try:
                    observe(target, cls(), st_["what"])
                except Exception:  # noqa: BLE001 - purity, not totality
                    pass
            else:
                i = st_["on"]
                if i < len(objs) and objs[i][1] is not None and not check(i, f"step {k}"):
                    return out
        for i in range(len(objs) - 1, -1, -1):  # copies first, the (so far unobserved) original last
            if objs[i][1] is not None and not check(i, "end"):
                return out
        # nothing of all this may have leaked into what a fresh instance starts from
        seen = set()

        def fresh(cls_, mi_, depth=2):
            if cls_ in seen:
                return
            seen.add(cls_)
            f = cls_()
            if guard("bytes_fresh", bytes, f) != b"" or norm(schema, mi_, guard("snapshot_fresh", snap_bp, schema, mi_, f, "sow_or_content")) != {}:
                out.append((f"fresh_instance_not_empty|{mi_.full_name.split('.')[-1]}", f"a new {cls_.__name__}() encodes to {bytes(f).hex()[:80]} / holds {snap_bp(schema, mi_, f, 'sow_or_content')!r:.200}"))
            if depth:
                info = BPInfo.of(cls_)
                for fi in mi_.fields:
                    leaf = fi.val if fi.card == "map" else fi
                    if leaf.type == "message" and leaf.wkt is None:
                        fresh(info.elem_class(fi), schema.msg(leaf.msg), depth - 1)

        fresh(cls, mi)
    except Guarded as g:
        out.append((f"raises_{g.where}_{type(g.exc).__name__}", str(g)))
    return out


BASIC_OBSERVERS = ["bytes", "len", "serialize_to_string", "dump", "to_dict", "to_json", "eq_self", "repr", "bool"]


def basic_observe(m, equal, what):
    from io import BytesIO

    if what == "bytes":
        bytes(m)
    elif what == "len":
        len(m)
    elif what == "serialize_to_string":
        m.SerializeToString()
    elif what == "dump":
        m.dump(BytesIO())
    elif what == "to_dict":
        m.to_dict()
    elif what == "to_json":
        m.to_json()
    elif what == "eq_self":
        m == m
        m == equal
    elif what == "repr":
        repr(m)
    elif what == "bool":
        bool(m)


def target(pid, c, quick=300, thorough=4000):
    """The in-place histories as a target of another property (C02 / C09: what is encoded - and its announced length -
    must be what the object holds NOW, however often it was encoded before and however it was changed since)."""
    from ..engine import Eval, Failure, Target

    def ev(case):
        found = run(c, case, basic_observe)
        steps = case["steps"]
        fails = [Failure(cl.split("|")[0], f"prog|{cl}|{case['msg']}", f"case={case!r:.1200} :: {d}") for cl, d in found]
        muts = [s_ for s_ in steps if s_["op"] == "mut"]
        return Eval(fails, nontrivial=bool(muts) and any(s_["op"] in ("check", "observe") for s_ in steps),
                    labels=[f"prog_msg:{case['msg']}"] + sorted({f"prog_op:{s_['op']}" for s_ in steps}))

    names = ["Holder"] * 3 + ["Box", "Mixed", "Rec", "Repeats", "Maps", "Oneofs", "Scalars", "Scalars", "Optionals", "Leaf", "Tags"]
    return Target("inplace_histories_vs_model", ev, strategy=strategy(c, names, BASIC_OBSERVERS), quick=quick, thorough=thorough, time_quick=50,
                  rule="programs of in-place mutations / copies / observers (bytes, len, SerializeToString, dump, to_dict, ...) over one object and its copies; every object is compared - through the reference decoder, len and an independently built twin - with the tree model of its own history")
