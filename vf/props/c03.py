"""C03 Plugin output faithfully implements the schema (translation validity)."""
from __future__ import annotations

import dataclasses
import glob
import importlib
import os
import re

from hypothesis import strategies as st

from .. import env, gen
from ..engine import Eval, Failure, Target
from ..schema import norm_name, render, schema_ast
from ..schema_info import Schema

LEVEL = "translation_validation"
PROGRAM_TARGETS = ("tests_inputs_corpus", "grammar_schemas", "known_finding_probes")
QUICK_SHARDS = 8
THOROUGH_SHARDS = 16
RULE = (
    "Programs: (1) Hypothesis grammar schemas - 1-3 packages (depth 0-4, package-level cycles through <p>_defs/"
    "<p>_refs files), nested messages / enums, all 15 scalar kinds, enums with negative / aliased / gap numbers, maps "
    "over every legal key kind, oneofs, proto3 optional, repeated, self-recursive fields, well-known types, field "
    "numbers at tag-size boundaries, comments, services, and a labelled name strategy (conventional, keyword, "
    "builtin, digit-after-underscore, upper-case run, leading / trailing / double underscore, camelCase, lower-case "
    "type names); validity decided by protoc (rejected schemas are discarded and counted); every type carries a "
    "unique marker so classes are matched without re-implementing naming. (2) the repository's tests/inputs corpus "
    "(matched by normalised nesting-path names). (3) EXHAUSTIVE: every bundled descriptor / compiler / well-known-type "
    "dataclass vs descriptor.proto / plugin.proto / the WKT protos. Oracle: protoc's FileDescriptorSet - plugin exits "
    "0, every package imports, schema type -> class is a bijection, fields <-> descriptor fields is a bijection on "
    "number with equal proto type, cardinality (resolved hint + metadata), oneof group, wrapper / Timestamp / "
    "Duration mapping and target class identity; enum members carry the declared numbers in declaration order. "
    "Non-trivial = schema with >=2 of {nested type, map, oneof, optional, enum with negative/alias, cross-package "
    "reference, recursive type, keyword-like name, service}."
)
ASSUMPTIONS = [
    "ruff is not installable offline: the plugin runs with an identity stand-in, i.e. its output is judged before "
    "import sorting / formatting (real ruff is assumed semantics-preserving on valid Python and failing on invalid)",
]


def features(ast):
    f = set()
    pkgs = {x["package"] for x in ast["files"]}

    def walk(ms, pkg):
        for m in ms:
            if m["nested"] or m["enums"]:
                f.add("nested")
            for fld in m["fields"]:
                if fld["label"] == "map":
                    f.add("map")
                if fld["label"] == "oneof":
                    f.add("oneof")
                if fld["label"] == "optional":
                    f.add("optional")
                if fld["name_class"] in ("keyword", "builtin", "soft_keyword"):
                    f.add("keywordish_name")
                if fld["kind"] in ("msg", "enum") and not (fld["type"].startswith(pkg + ".") if pkg else "." not in fld["type"]):
                    f.add("cross_package")
                if fld["name"] in ("self_ref", "again"):
                    f.add("recursive")
            for e in m["enums"]:
                if e["alias"] or any(v < 0 for _, v in e["values"]):
                    f.add("enum_neg_alias")
            walk(m["nested"], pkg)

    for fl in ast["files"]:
        walk(fl["messages"], fl["package"])
        for e in fl["enums"]:
            if e["alias"] or any(v < 0 for _, v in e["values"]):
                f.add("enum_neg_alias")
        if fl["services"]:
            f.add("service")
    if len(pkgs) > 1:
        f.add("multi_package")
    return f


def validate(c: gen.Compiled, by_marker=True):
    """[(clause, where, detail)] for one compiled schema."""
    out = []
    if c.rc != 0:
        last = [l for l in c.stderr.strip().splitlines() if l.strip()][-2:] if c.stderr.strip() else ["?"]
        exc = re.sub(r"[^A-Za-z_].*", "", last[0].strip()) or "error"
        return [("plugin_failed", exc, " | ".join(last)[:400])]
    gen.import_all(c)
    for pkg, err in c.import_errors.items():
        out.append(("generated_package_not_importable", err.split(":")[0], f"package {pkg!r}: {err[:300]}"))
    if c.import_errors:
        return out
    schema = Schema(c.fds)
    own_files = [f for f in c.fds.file if not f.name.startswith("google/protobuf/")]
    own_pkgs = {f.package for f in own_files}

    def in_pkg(full, pkg):
        # longest own package that prefixes the full name
        cands = [p for p in own_pkgs if p == "" or full.startswith(p + ".")]
        return max(cands, key=len) == pkg if cands else False

    # marker tables from the descriptors
    marker_by_full = {}
    for full, mi in schema.messages.items():
        if mi.map_entry:
            continue
        for fi in mi.fields:
            if fi.number > 20000 and fi.name.startswith("mk"):
                marker_by_full[full] = fi.number
    for full, ei in schema.enums.items():
        for n, v in ei.values:
            if v > 20000 and "MK" in n:
                marker_by_full[full] = v
    # classes
    class_by_marker, by_class_marker, dup = {}, {}, []
    unmarked = []
    for pkg, mod in c.modules.items():
        msgs, enums = gen.classes_of(mod)
        for cls in msgs:
            mk = gen.marker_of_message(cls)
            if mk is None:
                unmarked.append(cls)
            elif mk in class_by_marker:
                dup.append((mk, cls))
            else:
                class_by_marker[mk] = cls
                by_class_marker[cls] = mk
        for cls in enums:
            mk = gen.marker_of_enum(cls)
            if mk is None:
                unmarked.append(cls)
            elif mk in class_by_marker:
                dup.append((mk, cls))
            else:
                class_by_marker[mk] = cls
                by_class_marker[cls] = mk
    full_by_marker = {v: k for k, v in marker_by_full.items()}
    for mk, cls in dup:
        out.append(("type_generated_twice", "-", f"marker {mk}: {cls.__name__}"))
    for cls in unmarked:
        out.append(("extra_class_without_schema_type", "-", f"{cls.__module__}.{cls.__name__}"))
    for full, mk in marker_by_full.items():
        if full.startswith("google.protobuf."):
            continue
        cls = class_by_marker.get(mk)
        if cls is None:
            kind = "enum" if full in schema.enums else "message"
            out.append(("schema_type_without_class", kind, f"{full} (marker {mk})"))
            continue
        pkg = max([p for p in own_pkgs if p == "" or full.startswith(p + ".")], key=len)
        want_mod = c.case_id + ("." + pkg if pkg else "")
        if cls.__module__ != want_mod:
            out.append(("class_in_wrong_package", "-", f"{full}: {cls.__module__} want {want_mod}"))
        if full in schema.messages:
            mi = schema.msg(full)
            try:
                got = gen.describe_class(cls, by_class_marker)
            except Exception as e:  # noqa: BLE001
                out.append(("type_hints_unresolvable", type(e).__name__, f"{full}: {e}"[:300]))
                continue
            want = gen.expected_fields(schema, mi, marker_by_full)
            for cl, d in gen.compare_fields(got, want):
                fi = None
                m = re.match(r"(\S+)=(\d+)", d)
                if m:
                    fi = mi.by_number(int(m.group(2)))
                out.append((cl, fi.kind if fi else "-", f"{full}: {d}"))
            # instantiable
            try:
                gen.instantiate(cls)
            except Exception as e:  # noqa: BLE001
                out.append(("class_not_instantiable", type(e).__name__, f"{full}: {e}"[:200]))
        else:
            ei = schema.enums[full]
            got_vals = [m.value for m in cls.__members__.values()]
            want_vals = [v for _, v in ei.values]
            if got_vals != want_vals:
                out.append(("enum_member_numbers", "-", f"{full}: {got_vals} want {want_vals}"))
    return out


def validate_by_name(c: gen.Compiled):
    """tests/inputs corpus: no markers -> match by normalised nesting path."""
    out = []
    if c.rc != 0:
        last = [l for l in c.stderr.strip().splitlines() if l.strip()][-2:] if c.stderr.strip() else ["?"]
        return [("plugin_failed", re.sub(r"[^A-Za-z_].*", "", last[0].strip()) or "error", " | ".join(last)[:400])]
    gen.import_all(c)
    for pkg, err in c.import_errors.items():
        out.append(("generated_package_not_importable", err.split(":")[0], f"package {pkg!r}: {err[:300]}"))
    if c.import_errors:
        return out
    schema = Schema(c.fds)
    own_pkgs = {f.package for f in c.fds.file if not f.name.startswith("google/protobuf/")}
    by_pkg_classes = {}
    for pkg, mod in c.modules.items():
        msgs, enums = gen.classes_of(mod)
        by_pkg_classes[pkg] = {}
        for cls in msgs + enums:
            by_pkg_classes[pkg].setdefault(norm_name(cls.__name__), []).append(cls)
    by_class_full = {}
    todo = []
    for full in list(schema.messages) + list(schema.enums):
        if full.startswith("google.protobuf.") and "google.protobuf" not in own_pkgs:
            continue
        if full in schema.messages and schema.messages[full].map_entry:
            continue
        cands = [p for p in own_pkgs if p == "" or full.startswith(p + ".")]
        if not cands:
            continue
        pkg = max(cands, key=len)
        if pkg == "google.protobuf":
            continue
        rel = full[len(pkg) + 1:] if pkg else full
        key = norm_name(rel)
        classes = by_pkg_classes.get(pkg, {}).get(key, [])
        if len(classes) != 1:
            out.append(("schema_type_without_unique_class", "-", f"{full}: {len(classes)} classes named like {key!r}"))
            continue
        by_class_full[classes[0]] = full
        todo.append((full, classes[0]))
    marker_like = {full: ("name", full) for full in by_class_full.values()}
    by_class_marker = {cls: ("name", full) for cls, full in by_class_full.items()}
    for full, cls in todo:
        if full in schema.messages:
            mi = schema.msg(full)
            try:
                got = gen.describe_class(cls, by_class_marker)
            except Exception as e:  # noqa: BLE001
                out.append(("type_hints_unresolvable", type(e).__name__, f"{full}: {e}"[:300]))
                continue
            want = gen.expected_fields(schema, mi, marker_like)
            for cl, d in gen.compare_fields(got, want):
                out.append((cl, "-", f"{full}: {d}"))
        else:
            got_vals = [m.value for m in cls.__members__.values()]
            want_vals = [v for _, v in schema.enums[full].values]
            if got_vals != want_vals:
                out.append(("enum_member_numbers", "-", f"{full}: {got_vals} want {want_vals}"))
    return out


def targets(ctx):
    def grammar_ev(case):
        ast = case["ast"]
        files = render(ast)
        c = gen.compile_files(files, tag="c03_")
        try:
            if c.protoc_rejected:
                reason = re.sub(r"[^a-zA-Z ]+", " ", (c.stderr.strip().splitlines() or ["?"])[0])[-60:].strip()
                return Eval(discard=f"protoc rejects: {reason[:50]}")
            found = validate(c)
            feats = features(ast)
            fails = [Failure(cl, f"{cl}|{where}", f"{d}\n--- protos ---\n" + "\n".join(f"# {n}\n{t}" for n, t in files.items())[:3000]) for cl, where, d in found]
            return Eval(fails, nontrivial=len(feats) >= 2, labels=[f"feat:{x}" for x in sorted(feats)] + [f"n_packages:{len({f['package'] for f in ast['files']})}"])
        finally:
            c.cleanup()

    strat = schema_ast().map(lambda a: {"ast": a})

    # ---- repository corpus
    inputs_dir = os.path.join(env.REPO, "tests", "inputs")

    def corpus_cases():
        for d in sorted(os.listdir(inputs_dir)):
            p = os.path.join(inputs_dir, d)
            if os.path.isdir(p) and glob.glob(os.path.join(p, "*.proto")):
                yield {"inputs_case": d}

    def corpus_ev(case):
        d = os.path.join(inputs_dir, case["inputs_case"])
        files = {os.path.basename(p): open(p).read() for p in sorted(glob.glob(os.path.join(d, "*.proto")))}
        c = gen.compile_files(files, tag="c03in_")
        try:
            if c.protoc_rejected:
                return Eval(discard="protoc rejects a tests/inputs case")
            found = validate_by_name(c)
            fails = [Failure(cl, f"inputs|{cl}|{where}|{case['inputs_case']}", d_) for cl, where, d_ in found]
            return Eval(fails, nontrivial=True, labels=["inputs_corpus"])
        finally:
            c.cleanup()

    # ---- bundled descriptor classes, exhaustive
    def bundled_cases():
        yield {"bundled": "std"}
        yield {"bundled": "pydantic"}

    def bundled_ev(case):
        from google.protobuf import any_pb2, api_pb2, descriptor_pb2, duration_pb2, empty_pb2, field_mask_pb2, source_context_pb2, struct_pb2, timestamp_pb2, type_pb2, wrappers_pb2
        from google.protobuf.compiler import plugin_pb2
        import betterproto

        base = "betterproto.lib.std.google.protobuf" if case["bundled"] == "std" else "betterproto.lib.pydantic.google.protobuf"
        mods = [importlib.import_module(base), importlib.import_module(base + ".compiler")]
        ref_msgs, ref_enums = {}, {}

        def add_file(fd):
            def walk(desc, path):
                ref_msgs["".join(path + [desc.name]).lower()] = desc
                for n in desc.nested_types:
                    walk(n, path + [desc.name])
                for e in desc.enum_types:
                    ref_enums["".join(path + [desc.name, e.name]).lower()] = e

            for m in fd.message_types_by_name.values():
                walk(m, [])
            for e in fd.enum_types_by_name.values():
                ref_enums[e.name.lower()] = e

        for pb in (descriptor_pb2, plugin_pb2, any_pb2, api_pb2, duration_pb2, empty_pb2, field_mask_pb2, source_context_pb2, struct_pb2, timestamp_pb2, type_pb2, wrappers_pb2):
            add_file(pb.DESCRIPTOR)
        fails, n, nt = [], 0, 0
        TYPE = {1: "double", 2: "float", 3: "int64", 4: "uint64", 5: "int32", 6: "fixed64", 7: "fixed32", 8: "bool", 9: "string",
                11: "message", 12: "bytes", 13: "uint32", 14: "enum", 15: "sfixed32", 16: "sfixed64", 17: "sint32", 18: "sint64", 10: "group"}
        for mod in mods:
            msgs, enums = gen.classes_of(mod)
            for cls in msgs:
                desc = ref_msgs.get(norm_name(cls.__name__))
                if desc is None:
                    continue
                ref_by_name = {f.name: f for f in desc.fields}
                for f in dataclasses.fields(cls):
                    meta = betterproto.FieldMetadata.get(f)
                    rf = ref_by_name.get(f.name) or ref_by_name.get(f.name.rstrip("_"))
                    if rf is None:
                        continue
                    n += 1
                    nt += 1
                    if rf.number != meta.number:
                        fails.append(Failure("bundled_field_number", f"bundled|field_number|{cls.__name__}.{f.name}", f"{cls.__name__}.{f.name}: {meta.number}, {desc.full_name} says {rf.number}"))
                    is_map = rf.message_type is not None and rf.message_type.GetOptions().map_entry
                    want_t = "map" if is_map else TYPE[rf.type]
                    if meta.proto_type != want_t:
                        fails.append(Failure("bundled_field_type", f"bundled|field_type|{cls.__name__}.{f.name}", f"{cls.__name__}.{f.name}: {meta.proto_type}, {desc.full_name} says {want_t}"))
                    hints = None
                    try:
                        import typing, sys

                        hints = typing.get_type_hints(cls, vars(sys.modules[cls.__module__]), {})
                        card, _ = gen._hint_shape(hints[f.name])
                        rep = rf.is_repeated if hasattr(rf, "is_repeated") else rf.label == 3
                        want_card = "map" if is_map else ("repeated" if rep else None)
                        if want_card and card != want_card:
                            fails.append(Failure("bundled_field_label", f"bundled|field_label|{cls.__name__}.{f.name}", f"{cls.__name__}.{f.name}: hint {card}, {desc.full_name} says {want_card}"))
                        if not want_card and card in ("repeated", "map"):
                            fails.append(Failure("bundled_field_label", f"bundled|field_label|{cls.__name__}.{f.name}", f"{cls.__name__}.{f.name}: hint {card}, {desc.full_name} says singular"))
                    except Exception:  # noqa: BLE001
                        pass
            for cls in enums:
                e = ref_enums.get(norm_name(cls.__name__))
                if e is None:
                    continue
                ref_vals = {v.name: v.number for v in e.values}
                for name, member in cls.__members__.items():
                    cand = [rn for rn in ref_vals if rn == name or rn.endswith("_" + name)]
                    if not cand:
                        continue
                    n += 1
                    nt += 1
                    if ref_vals[cand[0]] != member.value and all(ref_vals[x] != member.value for x in cand):
                        fails.append(Failure("bundled_enum_number", f"bundled|enum_number|{cls.__name__}.{name}", f"{cls.__name__}.{name}={member.value}, {e.full_name} says {ref_vals[cand[0]]}"))
        if n < 100:
            raise RuntimeError(f"bundled descriptor comparison matched only {n} fields (harness)")
        return Eval(fails, weight=n, nontrivial_count=nt, labels=[f"bundled:{case['bundled']}"])

    # ---- fixed probes of the known findings that the grammar excludes by construction
    PROBES = {
        "typing_name_as_type_name": {"p.proto": 'syntax = "proto3";\npackage p;\nmessage Optional { int32 a = 1; }\nmessage Holder { optional int32 b = 1; repeated int32 c = 2; }\n'},
    }

    # one probe per shadowing field name: the finding is specific to the names that fail on the pinned tree
    _SH = ('syntax = "proto3";\npackage p;\nimport "google/protobuf/timestamp.proto";\nimport "google/protobuf/duration.proto";\n'
           "message Shadow { %s google.protobuf.Timestamp other = 2; optional google.protobuf.Duration span = 8; repeated int32 more = 5; map<int32, int32> d2 = 7; int32 mk20001 = 20001; }\n")
    for _n, _decl in (("datetime", "google.protobuf.Timestamp datetime = 1;"), ("timedelta", "optional google.protobuf.Duration timedelta = 3;"),
                      ("list", "repeated int32 list = 4;"), ("dict", "map<int32, int32> dict = 6;")):
        PROBES["field_named_like_annotation_type:" + _n] = {"p.proto": _SH % _decl}

    # an enum value whose name starts with two underscores (a legal proto identifier): the class body line "__X = 5" is
    # name-mangled / treated as a dunder and the runtime's metaclass skips every name starting with "__"
    PROBES["enum_value_dunder_name"] = {"p.proto": 'syntax = "proto3";\npackage p;\nenum Edge { EDGE_ZERO = 0; __BOTH__ = 2; __Z = 5; EDGE_MK = 20001; }\nmessage M { Edge e = 1; int32 mk20002 = 20002; }\n'}

    def probe_cases():
        for k in PROBES:
            yield {"probe": k}

    def probe_ev(case):
        c = gen.compile_files(PROBES[case["probe"]], tag="c03p_")
        try:
            found = validate_by_name(c)
            return Eval([Failure(cl, f"probe|{case['probe']}|{cl}|{where}", d) for cl, where, d in found], nontrivial=True, labels=["probe"])
        finally:
            c.cleanup()

    # ---- fixed matrix: every pooled field name x every label, and packages under google.* that are not google.protobuf
    from ..schema import FIELD_NAMES

    MATRIX_NAMES = sorted({n for pool in FIELD_NAMES.values() for n in pool} | {"sha256sum", "ipv4address", "x2y", "none", "HTTPStatusCode", "iD", "URL2go", "entry", "Entry", "key", "value"})

    def matrix_files(label):
        body = []
        for i, n in enumerate(MATRIX_NAMES):
            decl = {"single": f"int64 {n} = 1;", "repeated": f"repeated sint32 {n} = 1;", "optional": f"optional string {n} = 1;",
                    "map": f"map<string, int32> {n} = 1;", "map_msg": f"map<int32, V> {n} = 1;",
                    "oneof": f"oneof grp {{ int32 {n} = 1; string other_member = 2; }}", "message": f"V {n} = 1;",
                    "repeated_msg": f"repeated V {n} = 1;"}[label]
            body.append(f"message N{i} {{ {decl} bool tail = 2000; }}")
        return {"names.proto": 'syntax = "proto3";\npackage names;\nmessage V { int32 v = 1; }\n' + "\n".join(body) + "\n"}

    GOOGLE_PKGS = {
        "google/type/money.proto": 'syntax = "proto3";\npackage google.type;\nmessage Money { string currency_code = 1; int64 units = 2; int32 nanos = 3; }\nenum Day { DAY_UNSPECIFIED = 0; MONDAY = 1; }\n',
        "google/rpc/status.proto": 'syntax = "proto3";\npackage google.rpc;\nimport "google/protobuf/duration.proto";\nmessage Status { int32 code = 1; string message = 2; google.protobuf.Duration retry = 3; }\n',
        "googlex/thing.proto": 'syntax = "proto3";\npackage googlex;\nmessage Thing { int32 a = 1; }\n',
        "shop.proto": 'syntax = "proto3";\npackage shop;\nimport "google/type/money.proto";\nimport "google/rpc/status.proto";\nimport "googlex/thing.proto";\nmessage Order { google.type.Money price = 1; google.rpc.Status status = 2; repeated google.type.Day days = 3; googlex.Thing thing = 4; }\n',
    }
    SVC_NAMES = ["Svc", "lower_service", "HTTPService", "_3DSecure", "__2fa", "none", "True", "class", "import", "Type", "x", "_", "a__b", "v2API", "Stub", "Base"]
    LABELS = ["single", "repeated", "optional", "map", "map_msg", "oneof", "message", "repeated_msg"]

    def matrix_cases():
        for lab in LABELS:
            yield {"matrix": lab}
        yield {"matrix": "google_packages"}
        yield {"matrix": "service_names"}
        yield {"matrix": "types_named_like_wkt"}
        yield {"matrix": "single_construct_shapes"}
        yield {"matrix": "non_ascii_comments"}
        yield {"matrix": "non_ascii_comments", "locale": "C"}

    def service_files():
        body = "message Q { int32 a = 1; }\n" + "".join(
            f"service {n} {{ rpc Get (Q) returns (Q); rpc {m} (stream Q) returns (stream Q); }}\n" for n, m in zip(SVC_NAMES, SVC_NAMES[1:] + SVC_NAMES[:1]))
        return {"svcnames.proto": 'syntax = "proto3";\npackage svcnames;\n' + body}

    def matrix_ev(case):
        if case["matrix"] == "service_names":
            # every service has an importable <Name>Stub / <Name>Base pair whose route table names the proto service
            from betterproto.grpc.grpclib_server import ServiceBase

            c = gen.compile_files(service_files(), tag="c03m_")
            try:
                fails = []
                found = validate_by_name(c)
                for cl, where, d in found:
                    fails.append(Failure(cl, f"matrix|service_names|{cl}|{where}", d))
                if not found:
                    mod = c.modules["svcnames"]
                    routes = set()
                    for obj in vars(mod).values():
                        if isinstance(obj, type) and issubclass(obj, ServiceBase) and obj is not ServiceBase and obj.__module__ == mod.__name__:
                            try:
                                routes |= set(obj().__mapping__())
                            except Exception as e:  # noqa: BLE001
                                fails.append(Failure("service_mapping_raises", f"matrix|service_names|service_mapping_raises|{type(e).__name__}", f"{obj.__name__}: {e}"))
                    for n, m in zip(SVC_NAMES, SVC_NAMES[1:] + SVC_NAMES[:1]):
                        for me in ("Get", m):
                            if f"/svcnames.{n}/{me}" not in routes:
                                fails.append(Failure("service_route_missing", f"matrix|service_names|service_route_missing|{n}", f"/svcnames.{n}/{me} not served by any generated base class"))
                return Eval(fails, weight=len(SVC_NAMES), nontrivial_count=len(SVC_NAMES), labels=["matrix:service_names"])
            finally:
                c.cleanup()
        extra_env = None
        if case["matrix"] == "non_ascii_comments":
            # comments in other scripts; once more with the plugin process in a non-UTF-8 locale (LC_ALL=C without Python's
            # UTF-8 mode / locale coercion): what the plugin hands to the formatter must not depend on it
            files = {"i18n.proto": 'syntax = "proto3";\npackage i18n;\n// Gr\u00fc\u00dfe aus K\u00f6ln \u2013 \u65e5\u672c\u8a9e\u306e\u30b3\u30e1\u30f3\u30c8 \U0001F600\n'
                                   'message Gru\u00df_ { // \u00e9t\u00e9\n  int32 a = 1; // \u0416\n  int32 mk20001 = 20001;\n}\n'.replace("Gru\u00df_", "Gruss")
                                   + '// \u00fcber enum\nenum Stufe { STUFE_NULL = 0; STUFE_MINUS = -2; // \u4e8c\n  STUFE_MK = 20002; }\n'
                                   'service Dienst { // \u30b5\u30fc\u30d3\u30b9\n  rpc Tu (Gruss) returns (Gruss); // \u00df\n}\n'}
            if case.get("locale") == "C":
                extra_env = {"LC_ALL": "C", "LANG": "C", "PYTHONUTF8": "0", "PYTHONCOERCECLOCALE": "0", "PYTHONIOENCODING": ""}
        elif case["matrix"] == "single_construct_shapes":
            # one package per construct / oneof shape / position of a builtin-named field (vf/props/_shapes.py)
            from ._shapes import SINGLE_CONSTRUCT

            files = dict(SINGLE_CONSTRUCT)
        elif case["matrix"] == "types_named_like_wkt":
            # user-defined messages / enums merely NAMED like well-known types, in every position (protos/wktlike.proto)
            import os

            files = {"wktlike.proto": open(os.path.join(env.VERIF, "protos", "wktlike.proto")).read()}
        else:
            files = GOOGLE_PKGS if case["matrix"] == "google_packages" else matrix_files(case["matrix"])
        c = gen.compile_files(files, tag="c03m_", extra_env=extra_env)
        try:
            found = validate_by_name(c)
            if case["matrix"] == "single_construct_shapes":
                # the shapes carry markers: the marker-indexed validation (which also instantiates every class) as well
                found = found + [x for x in validate(c) if x not in found]
            fails = []
            for cl, where, d in found:
                # name the field name(s) concerned: the message N<i> is in the detail
                mm = re.search(r"names\.N(\d+)", d)
                nm = MATRIX_NAMES[int(mm.group(1))] if mm else "-"
                fails.append(Failure(cl, f"matrix|{case['matrix']}|{cl}|{where}|name:{nm}", d))
            n = len(GOOGLE_PKGS) if case["matrix"] == "google_packages" else len(MATRIX_NAMES)
            return Eval(fails, weight=n, nontrivial_count=n, labels=[f"matrix:{case['matrix']}" + (":locale_" + case["locale"] if case.get("locale") else "")])
        finally:
            c.cleanup()

    return [
        Target("name_label_matrix", matrix_ev, cases=matrix_cases, exhaustive=True,
               rule="every pooled field name (keywords, builtins, upper-case runs, digits, underscores) x {single, repeated, optional, map, map of messages, oneof, message, repeated message}; packages google.type / google.rpc / googlex next to google.protobuf"),
        Target("known_finding_probes", probe_ev, cases=probe_cases, exhaustive=True, shard_cases=False),
        Target("bundled_descriptors", bundled_ev, cases=bundled_cases, exhaustive=True, shard_cases=False,
               rule="every field / enum value the bundled classes share by name with descriptor.proto, plugin.proto and the well-known-type protos"),
        Target("tests_inputs_corpus", corpus_ev, cases=corpus_cases, exhaustive=True, rule="every tests/inputs/*/ case"),
        Target("grammar_schemas", grammar_ev, strategy=strat, quick=9, thorough=120, time_quick=100, time_thorough=1500, pin_budget=25, pin_sigs=2),
    ]
