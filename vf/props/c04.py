"""C04 JSON / dict round trip: from_dict(to_dict(m)) and from_json(to_json(m)) give m."""
from __future__ import annotations

import json

from hypothesis import strategies as st

from ..engine import Eval, Failure, Guarded, Target, collecting, guard
from ..values import BPAdapter, norm, snap_bp
from . import _common as cm
from ._corpus import corpus

LEVEL = "exploration"
QUICK_SHARDS = 4
RULE = (
    "Hypothesis (value tree, casing in {CAMEL, SNAKE}, path in {dict, json text, to_json/from_json}, form in "
    "{classmethod, instance on a fresh message}, generated-code variant in {default, typing.310}, UTC offset of the aware "
    "datetimes put into Timestamp fields, construction route in {kwargs, setattr, lazy = only in-place mutation of lazily created members, kwargs_multi = constructor also given earlier members of the selected oneof groups}) over the kitchen-sink corpus. Oracle: json.dumps(to_dict(m)) "
    "succeeds; the reloaded message has the same public-observer snapshot, is == m and encodes to the same bytes. "
    "Non-trivial = contains >=1 of: 64-bit int, bytes, non-finite float, enum, Timestamp/Duration, wrapper, map with "
    "non-string key, map/repeated of messages, default-valued oneof/optional member, present-but-empty message."
)
ASSUMPTIONS = ["json.dumps default settings (allow_nan) as used by Message.to_json"]


def json_nontrivial(schema, mi, tree) -> bool:
    for fi in mi.fields:
        if fi.name not in tree:
            continue
        k = fi.kind
        d = cm.describe(schema, fi, tree[fi.name])
        if any(t in k for t in ("int64", "fixed64", "bytes", "enum", "timestamp", "duration", "wrap_")):
            return True
        if fi.card == "map" and fi.key.type != "string" and tree[fi.name]:
            return True
        if fi.type == "message" and fi.card in ("repeated", "map") and tree[fi.name]:
            return True
        if "=nan" in d or "=inf" in d:
            return True
        if (fi.card == "optional" or fi.oneof) and ("=zero" in d or "=empty" in d or "=false" in d):
            return True
        if fi.type == "message" and fi.wkt is None and "=empty" in d:
            return True
        if fi.type == "message" and fi.wkt is None and isinstance(tree[fi.name], dict) and tree[fi.name]:
            sub = schema.msg(fi.msg)
            if json_nontrivial(schema, sub, tree[fi.name]):
                return True
    return False


def targets(ctx):
    import betterproto

    c = corpus()
    from . import _poison

    _poison_fn = lambda: _poison.apply(c)  # noqa: E731
    c310 = corpus(opts=("typing.310",))  # the same corpus generated with PEP 604 / builtin-generic annotations
    schema = c.schema
    CAS = {"camel": betterproto.Casing.CAMEL, "snake": betterproto.Casing.SNAKE}
    adapters = {}

    def adapter_for(tz):
        if tz not in adapters:
            adapters[tz] = BPAdapter(schema, tz_offset_min=tz)
        return adapters[tz]

    @collecting
    def clauses(out, name, tree, casing, path, form, variant="default", tz=0, route="kwargs"):
        cls = (c310 if variant == "typing.310" else c).bp(name)
        mi = schema.msg(f"ks.{name}")
        m = guard("build", adapter_for(tz).build, cls, mi, tree, route)
        # route "lazy": filled only by mutating what attribute access creates (no attribute of m itself is assigned);
        # presence of the intermediate messages = flag or content there (C06's business), on both sides
        mode = "sow_or_content" if route == "lazy" else "sow"
        if route == "lazy":
            # observe the JSON side FIRST: nothing (bytes, ==, snapshot) may have touched the message before
            first = guard("to_dict_untouched", m.to_dict, CAS[casing])
        b = guard("bytes", bytes, m)
        a = norm(schema, mi, guard("snapshot_m", snap_bp, schema, mi, m, mode))
        if route == "lazy" and first != guard("to_dict", m.to_dict, CAS[casing]):
            out.append(("to_dict_differs_after_observation", f"first={first!r:.300} later={m.to_dict(CAS[casing])!r:.300}"))
        if path == "to_json":
            text = guard("to_json", m.to_json, casing=CAS[casing])
            m2 = guard("from_json", cls().from_json, text)
        else:
            d = guard("to_dict", m.to_dict, CAS[casing])
            try:
                text = json.dumps(d)
            except (TypeError, ValueError) as e:
                out.append(("json_dumps_fails", f"{type(e).__name__}: {e}; dict={d!r:.300}"))
                return
            d2 = json.loads(text) if path == "json" else d
            if form == "class":
                m2 = guard("from_dict_cls", cls.from_dict, d2)
            else:
                m2 = guard("from_dict_inst", cls().from_dict, d2)
        z = norm(schema, mi, guard("snapshot_m2", snap_bp, schema, mi, m2, mode))
        if a != z:
            out.append(("json_roundtrip_snapshot", f"before={a!r:.400} after={z!r:.400}"))
        eq = guard("eq", lambda: m2 == m)
        if eq is not True:
            out.append(("json_roundtrip_eq", f"m2==m is {eq!r}"))
        b2 = guard("bytes2", bytes, m2)
        # JSON "NaN" cannot carry a nan's sign / payload bits: byte equality is only claimed without nans
        if b2 != b and "NaN" not in repr(a):
            out.append(("json_roundtrip_bytes", f"before={b.hex()[:200]} after={b2.hex()[:200]}"))

    def fails_clause(casing, path, form, clause, variant="default", tz=0, route="kwargs"):
        def f(mi, tree):
            name = mi.full_name.split(".")[-1]
            return any(cl == clause for cl, _ in clauses(name, tree, casing, path, form, variant, tz, route))

        return f

    def ev(case):
        name, tree = case["msg"], case["tree"]
        casing, path, form = case.get("casing", "camel"), case.get("path", "json"), case.get("form", "class")
        mi = schema.msg(f"ks.{name}")
        variant, tz, route = case.get("variant", "default"), case.get("tz", 0), case.get("route", "kwargs")
        from ..values import OutOfDomain

        try:
            found = clauses(name, tree, casing, path, form, variant, tz, route)
        except OutOfDomain as e:
            return Eval(discard=str(e))
        fails = []
        for clause, detail in found:
            fails += cm.failures_for(schema, mi, tree, clause,
                                     f"msg={name} casing={casing} path={path} form={form} tree={tree!r} :: {detail}",
                                     fails_clause(casing, path, form, clause, variant, tz, route), fmt="{clause}|{where}|" + path + ("|typing.310" if variant != "default" else ""))
        return Eval(fails, nontrivial=json_nontrivial(schema, mi, tree),
                    labels=cm.labels_for(schema, mi, tree) + [f"casing:{casing}", f"path:{path}", f"form:{form}", f"variant:{variant}", f"tz:{tz}", f"route:{route}"])

    base = cm.msg_tree_strategy(c)

    @st.composite
    def strat(draw):
        case = dict(draw(base))
        case["casing"] = draw(st.sampled_from(["camel", "snake"]))
        case["path"] = draw(st.sampled_from(["dict", "json", "to_json"]))
        case["form"] = draw(st.sampled_from(["class", "instance"]))
        case["variant"] = draw(st.sampled_from(["default", "default", "typing.310"]))
        case["tz"] = draw(st.sampled_from([0, 0, 330, -480, 60, 840]))
        case["route"] = draw(st.sampled_from(["kwargs", "kwargs", "kwargs", "setattr", "lazy", "lazy", "kwargs_multi"]))
        return case

    # ---- hand-written message classes (public field API) whose attribute names are not what the plugin would generate
    def hand_cases():
        for casing in ("camel", "snake"):
            for path in ("dict", "json", "to_json"):
                for form in ("class", "instance"):
                    yield {"hand": True, "casing": casing, "path": path, "form": form}
                    for k in NOZERO_VALUES:
                        yield {"nozero": k, "casing": casing, "path": path, "form": form}

    # a hand-written (or proto2-generated) enum WITHOUT a zero member: the number 0 - the default, and a number the enum
    # does not define - in every position
    def nozero_classes():
        if "NoZero" not in _hand:
            import dataclasses
            from typing import Dict, List, Optional

            class Level(betterproto.Enum):
                LOW = 1
                HIGH = 2
                NEG = -3

            _hand["Level"] = Level
            _hand["NoZero"] = dataclasses.make_dataclass("NoZero", [
                ("one", Level, betterproto.enum_field(1)), ("maybe", Optional[Level], betterproto.enum_field(2, optional=True)), ("many", List[Level], betterproto.enum_field(3)),
                ("by_name", Dict[str, Level], betterproto.map_field(4, "string", "enum")), ("pick_level", Level, betterproto.enum_field(5, group="pick")),
                ("pick_text", str, betterproto.string_field(6, group="pick")),
            ], bases=(betterproto.Message,), eq=False, repr=False)
        return _hand["Level"], _hand["NoZero"]

    NOZERO_VALUES = {
        "single": lambda L: {"one": L.try_value(0)}, "single_named": lambda L: {"one": L.HIGH}, "optional": lambda L: {"maybe": L.try_value(0)}, "optional_int": lambda L: {"maybe": 0},
        "repeated": lambda L: {"many": [L.LOW, L.try_value(0), L.NEG, L.try_value(7)]}, "repeated_ints": lambda L: {"many": [0, 2, 0]},
        "map": lambda L: {"by_name": {"a": L.try_value(0), "b": L.HIGH, "": L.try_value(9)}}, "oneof": lambda L: {"pick_level": L.try_value(0)}, "oneof_int": lambda L: {"pick_level": 0},
        "all": lambda L: {"one": L.NEG, "maybe": L.try_value(0), "many": [L.try_value(0)], "by_name": {"z": L.try_value(0)}, "pick_level": L.try_value(0)},
    }

    def nozero_ev(case):
        Level, NoZero = nozero_classes()
        fails = []
        try:
            m = guard("construct", lambda: NoZero(**NOZERO_VALUES[case["nozero"]](Level)))
            if case["path"] == "to_json":
                m2 = guard("from_json", NoZero().from_json, guard("to_json", m.to_json, casing=CAS[case["casing"]]))
            else:
                d = guard("to_dict", m.to_dict, CAS[case["casing"]])
                d2 = guard("json_dumps", lambda: json.loads(json.dumps(d))) if case["path"] == "json" else d
                m2 = guard("from_dict", NoZero.from_dict if case["form"] == "class" else NoZero().from_dict, d2)
            if m2 != m or bytes(m2) != bytes(m):
                fails.append(Failure("enum_without_zero_roundtrip", f"enum_without_zero|roundtrip|{case['nozero']}", f"case={case!r}: {m2!r:.300} vs {m!r:.300}; bytes {bytes(m2).hex()} vs {bytes(m).hex()}"))
        except Guarded as g:
            fails.append(Failure(f"raises_{g.where}", f"enum_without_zero|raises_{g.where}_{type(g.exc).__name__}|{case['nozero']}", str(g)))
        return Eval(fails, nontrivial=True, labels=["enum_without_zero", f"casing:{case['casing']}"])

    _hand = {}

    def hand_classes():
        if not _hand:
            import dataclasses
            from typing import Dict, List, Optional

            Inner = dataclasses.make_dataclass("HandInner", [("innerValue", int, betterproto.int64_field(1)), ("HTTPCode", int, betterproto.int32_field(2))],
                                               bases=(betterproto.Message,), eq=False, repr=False)
            Outer = dataclasses.make_dataclass("HandOuter", [
                ("userID", str, betterproto.string_field(1)), ("sessionToken", bytes, betterproto.bytes_field(2)), ("retry__count", int, betterproto.int32_field(3)),
                ("tags", List[str], betterproto.string_field(4)), ("HTTPStatus", int, betterproto.uint64_field(5)), ("x_y_z", float, betterproto.double_field(6)),
                ("address_line_1", str, betterproto.string_field(7)), ("subItem", Inner, betterproto.message_field(8)), ("byName", Dict[str, Inner], betterproto.map_field(9, "string", "message")),
                ("manyItems", List[Inner], betterproto.message_field(10)), ("maybeFlag", Optional[bool], betterproto.bool_field(11, optional=True)),
                ("trailing_", int, betterproto.sint32_field(12)), ("ipv4Address", str, betterproto.string_field(13)),
            ], bases=(betterproto.Message,), eq=False, repr=False)
            _hand["Inner"], _hand["Outer"] = Inner, Outer
        return _hand["Inner"], _hand["Outer"]

    def hand_ev(case):
        if "nozero" in case:
            return nozero_ev(case)
        Inner, Outer = hand_classes()
        m = Outer(userID="u", sessionToken=b"\x00\xff", retry__count=3, tags=["a", ""], HTTPStatus=2**63, x_y_z=1.5, address_line_1="x",
                  subItem=Inner(innerValue=-(2**62), HTTPCode=404), byName={"k": Inner(HTTPCode=1)}, manyItems=[Inner(innerValue=1), Inner()], maybeFlag=False,
                  trailing_=-5, ipv4Address="::1")
        fails = []
        try:
            if case["path"] == "to_json":
                m2 = guard("from_json", Outer().from_json, guard("to_json", m.to_json, casing=CAS[case["casing"]]))
            else:
                d = guard("to_dict", m.to_dict, CAS[case["casing"]])
                d2 = json.loads(json.dumps(d)) if case["path"] == "json" else d
                m2 = guard("from_dict", Outer.from_dict if case["form"] == "class" else Outer().from_dict, d2)
            if m2 != m or bytes(m2) != bytes(m):
                fails.append(Failure("handwritten_roundtrip", f"handwritten|roundtrip|{case['casing']}|{case['path']}", f"case={case!r}: {m2!r:.400} vs {m!r:.400}"))
        except Guarded as g:
            fails.append(Failure(f"raises_{g.where}", f"handwritten|raises_{g.where}_{type(g.exc).__name__}|{case['casing']}", str(g)))
        return Eval(fails, nontrivial=True, labels=["handwritten_class", f"casing:{case['casing']}"])

    # ---- one sub-message OBJECT referenced from several places of an (acyclic) message
    def alias_cases():
        for shape in ("two_fields", "repeated_twice", "two_map_values", "two_depths", "oneof_and_field", "holder"):
            for casing in ("camel", "snake"):
                for path in ("dict", "to_json"):
                    yield {"aliased": shape, "casing": casing, "path": path}

    def alias_ev(case):
        Rec, Holder, Bag, Leaf = c.bp("Rec"), c.bp("Holder"), c.bp("Bag"), c.bp("Leaf")
        shape = case["aliased"]
        x = Rec(i32=7, leaf=Leaf(i=1))
        if shape == "two_fields":
            m = Rec(rec=x, orec=x)
        elif shape == "repeated_twice":
            m = Rec(kids=[x, x, x])
        elif shape == "two_map_values":
            m = Rec(m={"a": x, "b": x})
        elif shape == "two_depths":
            m = Rec(rec=Rec(rec=x), kids=[x])
        elif shape == "oneof_and_field":
            lf = Leaf(s="shared")
            m = Rec(leaf=lf, rec=Rec(leaf=lf), kids=[Rec(leaf=lf)])
        else:
            b = Bag(nums=[1, 2], label="b")
            m = Holder(first=b, second=b, bags=[b, b])
        fails = []
        try:
            b0 = guard("bytes", bytes, m)
            if case["path"] == "to_json":
                m2 = guard("from_json", type(m)().from_json, guard("to_json", m.to_json, casing=CAS[case["casing"]]))
            else:
                d = guard("to_dict", m.to_dict, CAS[case["casing"]])
                m2 = guard("from_dict", type(m).from_dict, json.loads(json.dumps(d)))
            if (m2 == m) is not True or guard("bytes2", bytes, m2) != b0:
                fails.append(Failure("aliased_roundtrip", f"aliased|roundtrip|{shape}", f"case={case!r}: {m2!r:.300}"))
            # ... a second time (nothing may be left behind by the first walk)
            if guard("to_dict_again", m.to_dict, CAS[case["casing"]]) != guard("to_dict_third", m.to_dict, CAS[case["casing"]]):
                fails.append(Failure("aliased_second_walk", f"aliased|second_walk|{shape}", f"case={case!r}"))
        except Guarded as g:
            fails.append(Failure(f"raises_{g.where}", f"aliased|raises_{g.where}_{type(g.exc).__name__}|{shape}", str(g)[:300]))
        return Eval(fails, nontrivial=True, labels=["aliased_subobjects", f"aliased:{shape}"])

    from . import _seq

    return [Target("one_subobject_referenced_several_times", alias_ev, cases=alias_cases, exhaustive=True, shard_cases=False,
                   rule="the same sub-message object in two fields / several times in a repeated field / as two map values / at two depths / in a oneof and a field: JSON round trip in both casings"),
            Target("handwritten_classes_odd_attribute_names", hand_ev, cases=hand_cases, exhaustive=True, shard_cases=False,
                   rule="a hand-written message (public field API) with attribute names userID, sessionToken, retry__count, HTTPStatus, x_y_z, address_line_1, subItem, byName, trailing_ ... : every casing x path x form"),
            Target("corpus_values_json", ev, poison=_poison_fn, strategy=strat(), quick=700, thorough=8000, time_quick=70), _seq.target("C04"),
            *__import__("vf.props._thr", fromlist=["target"]).target(ctx, ['from_dict:Leaf', 'to_dict:Leaf', 'from_dict:Names', 'to_dict:Solo'])]
