"""C10 Delimited streams read back intact; truncation never yields a partial message."""
from __future__ import annotations

from io import BytesIO

from hypothesis import strategies as st

from .. import wire
from ..engine import Eval, Failure, Guarded, Target, guard
from ..values import BPAdapter, norm, snap_bp, to_ref
from . import _common as cm
from ._corpus import corpus
from .c08 import make_older, make_retyped

LEVEL = "fault_enumeration"
QUICK_SHARDS = 4
RULE = (
    "Hypothesis streams of 0..6 messages of mixed corpus types and values (incl. empty messages, messages carrying "
    "fields unknown to the reader: reader schema = writer's, an older variant with a generated subset of fields "
    "deleted, or a variant declaring such fields with an incompatible wire type; a minority of bodies crossing the "
    "1/2/3-byte length-prefix boundaries) written with dump(stream, SIZE_DELIMITED) and read from a BytesIO, an object offering read() only, or a BufferedReader with a buffer of 8 / 16 / 64 / 4096 bytes; for each stream EVERY cut point "
    "0..len(stream) is enumerated (streams longer than 3000 bytes: every cut within 16 bytes of a frame boundary, every record boundary inside a frame, the 64 KiB marks, plus a "
    "comb of ~300 cuts through the bodies; two fixed items make frames beyond 64 KiB). "
    "Oracle, intact stream: successive load(stream, SIZE_DELIMITED) return the written sequence, stream.tell() after "
    "call i is the spec offset of message i+1, the stream equals the concatenation of the reference's "
    "serialize_length_prefixed framing of the same payloads and parse_length_prefixed reads it back. Cut stream: "
    "reading in order, every call either returns a message equal to the one written or raises; a returned message "
    "that differs is the violation. Non-trivial = stream with >=2 messages incl. an empty or unknown-carrying one; "
    "cut strictly inside a message body or inside a length prefix."
)
ASSUMPTIONS = ["older reader classes are synthesised with the public field API (see C08)",
               "equality of a message read by an older reader is judged by re-reading its re-encoding with the writer's schema"]


def targets(ctx):
    import betterproto
    from google.protobuf import proto as gproto

    c = corpus()
    from . import _poison

    _poison_fn = lambda: _poison.apply(c)  # noqa: E731
    schema = c.schema
    adapter = BPAdapter(schema)

    def write_stream(items):
        s = BytesIO()
        payloads, offsets = [], [0]
        for it in items:
            cls = c.bp(it["msg"])
            mi = schema.msg(f"ks.{it['msg']}")
            if it.get("sized_then_filled"):
                # the writer sized / dumped the still empty instance before filling it IN PLACE (append to its lists,
                # add map entries, set fields of its sub-messages): the frame written afterwards must be the final one
                m = cls()
                guard("len_before", len, m)
                guard("dump_before", m.dump, BytesIO(), betterproto.SIZE_DELIMITED)
                m = guard("fill", adapter.fill_lazily, m, mi, it["tree"], 1)
            else:
                m = guard("build", adapter.build, cls, mi, it["tree"])
            guard("dump", m.dump, s, betterproto.SIZE_DELIMITED)
            payloads.append(guard("bytes", bytes, m))
            offsets.append(s.tell())
        return s.getvalue(), payloads, offsets

    def reader_cls(it):
        cls = c.bp(it["msg"])
        if it.get("drop") and it.get("retyped"):
            # the reader declares these fields with an incompatible wire type and must keep the records as unknown
            return make_retyped(cls, set(it["drop"]))
        return make_older(cls, set(it["drop"])) if it.get("drop") else cls

    def same_as_written(it, loaded):
        """Is `loaded` (read with the item's reader schema) the message that was written?"""
        cls = c.bp(it["msg"])
        mi = schema.msg(f"ks.{it['msg']}")
        want = norm(schema, mi, it["tree"])
        again = cls().parse(bytes(loaded)) if it.get("drop") else loaded
        return norm(schema, mi, snap_bp(schema, mi, again)) == want, want

    class OnlyRead:
        """A stream that offers read() and nothing else (a pipe, a socket file, a decompressor): all that
        load()'s SupportsRead[bytes] parameter promises.  `pos` is the harness's own view of the position."""

        def __init__(self, data):
            self._s = BytesIO(data)

        def read(self, n=-1):
            return self._s.read(n)

        def tell_for_harness(self):
            return self._s.tell()

    def read_all(items, data, stop_on_raise=True, only_read=False):
        """-> list of ('ok', msg, tell) / ('raise', exc); only_read: False | True (read()-only object) | int (a
        BufferedReader with that buffer size, as open(path, 'rb') gives: it also offers peek(), and its buffer ends
        wherever it ends - inside a varint, a tag, a payload)"""
        import io

        if only_read is not True and only_read:
            s = io.BufferedReader(io.BytesIO(data), buffer_size=int(only_read))
        else:
            s = OnlyRead(data) if only_read else BytesIO(data)
        if only_read is True:
            s_tell = s.tell_for_harness
        else:
            s_tell = s.tell
        out = []
        for it in items:
            try:
                m = reader_cls(it)().load(s, betterproto.SIZE_DELIMITED)
                out.append(("ok", m, s_tell()))
            except Exception as e:  # noqa: BLE001
                out.append(("raise", e, s_tell()))
                if stop_on_raise:
                    break
        return out

    def evaluate(case):
        items = case["msgs"]
        fails = []
        kinds = "+".join(sorted({("empty" if not it["tree"] else "nonempty") + ("_older" if it.get("drop") else "") for it in items})) or "nostream"
        try:
            data, payloads, offsets = write_stream(items)
        except Guarded as g:
            return Eval([Failure(f"raises_{g.where}", f"raises_{g.where}_{type(g.exc).__name__}|{kinds}", str(g))], nontrivial=False)
        # framing = varint length prefix, as the reference writes and reads it
        spec = b"".join(wire.enc_varint(len(p)) + p for p in payloads)
        if data != spec:
            fails.append(Failure("framing_vs_spec", f"framing_vs_spec|{kinds}", f"stream={data.hex()[:200]} spec={spec.hex()[:200]}"))
        ref_stream = BytesIO()
        for it, p in zip(items, payloads):
            r = c.rf(it["msg"]).FromString(p)
            gproto.serialize_length_prefixed(r, ref_stream)
        if len(ref_stream.getvalue()) != len(data):
            # the reference re-serialises canonically; only the *framing* is compared: same number of frames readable
            pass
        rs = BytesIO(data)
        for i, it in enumerate(items):
            try:
                r = gproto.parse_length_prefixed(c.rf(it["msg"]), rs)
                mi = schema.msg(f"ks.{it['msg']}")
                from ..values import snap_ref

                if r is None or norm(schema, mi, snap_ref(schema, mi, r)) != norm(schema, mi, it["tree"]) or rs.tell() != offsets[i + 1]:
                    fails.append(Failure("reference_reads_stream_differently", f"reference_reads_stream_differently|{kinds}", f"frame {i}"))
                    break
            except Exception as e:  # noqa: BLE001
                fails.append(Failure("reference_rejects_stream", f"reference_rejects_stream|{kinds}", f"frame {i}: {e}"))
                break
        # intact read
        only_read = case.get("buffered") or bool(case.get("only_read"))
        res = read_all(items, data, only_read=only_read)
        for i, (it, r) in enumerate(zip(items, res)):
            what = ("empty" if not it["tree"] else "nonempty") + ("_older" if it.get("drop") else "")
            prev = "first" if i == 0 else ("after_empty" if not items[i - 1]["tree"] else "after_nonempty")
            if r[0] == "raise":
                fails.append(Failure("intact_load_raises", f"intact_load_raises|{what}|{prev}|{type(r[1]).__name__}", f"frame {i}: {r[1]}"))
                break
            try:
                ok, want = same_as_written(it, r[1])
            except Exception as e:  # noqa: BLE001 - what was loaded cannot even be re-encoded / re-read
                ok, want = False, f"unusable: {type(e).__name__}: {e}"
            if not ok:
                fails.append(Failure("intact_load_differs", f"intact_load_differs|{what}|{prev}", f"frame {i}: want {want!r:.200}"))
                break
            if r[2] != offsets[i + 1]:
                fails.append(Failure("intact_load_position", f"intact_load_position|{what}|{prev}", f"frame {i}: tell={r[2]} want={offsets[i + 1]}"))
                break
        # every cut point
        n_inside = 0
        seen = set()
        if len(data) <= 3000:
            cuts = range(len(data))
        else:
            # long streams: every cut within 16 bytes of a frame boundary, every record boundary inside a frame (+-1), the
            # 64 KiB marks, and a comb of ~300 cuts through the bodies
            pts = set()
            for o in offsets:
                pts.update(range(max(0, o - 16), min(len(data), o + 17)))
            for fi2, o in enumerate(offsets[:-1]):
                body0 = o + len(wire.enc_varint(len(payloads[fi2])))
                try:
                    for bnd in wire.record_boundaries(payloads[fi2]):
                        pts.update(x for x in (body0 + bnd - 1, body0 + bnd, body0 + bnd + 1) if 0 <= x < len(data))
                except wire.WireError:
                    pass
                for mark in (65535, 65536, 65537, 131072):
                    if body0 + mark < len(data):
                        pts.add(body0 + mark)
            pts.update(range(0, len(data), max(1, len(data) // 300)))
            cuts = sorted(pts)
        for cut in cuts:
            # which frame / region is the cut in?
            fi_ = max(i for i in range(len(offsets)) if offsets[i] <= cut)
            at_boundary = cut == offsets[fi_]
            if not at_boundary:
                n_inside += 1
            plen = len(wire.enc_varint(len(payloads[fi_]))) if fi_ < len(payloads) else 0
            region = "boundary" if at_boundary else ("prefix" if cut < offsets[fi_] + plen else "body")
            res = read_all(items, data[:cut], only_read=only_read)
            for i, r in enumerate(res):
                if r[0] == "raise":
                    break
                it = items[i]
                try:
                    ok, want = same_as_written(it, r[1])
                except Exception as e:  # noqa: BLE001
                    ok, want = False, f"unencodable: {e}"
                complete = offsets[i + 1] <= cut
                if not ok or not complete:
                    what = ("empty" if not it["tree"] else "nonempty") + ("_older" if it.get("drop") else "")
                    clause = "cut_returns_partial_message" if not ok else "cut_returns_message_not_fully_present"
                    sig = f"{clause}|{what}|cut_in_{region}"
                    if sig not in seen:
                        seen.add(sig)
                        fails.append(Failure(clause, sig, f"cut={cut}/{len(data)} frame {i} (frame bytes {offsets[i]}..{offsets[i + 1]}) returned a message; want {want!r:.160}",
                                             case={"msgs": items, "only_cut": cut, **({"only_read": True} if only_read is True else ({"buffered": only_read} if only_read else {}))}))
                    break
        multi = len(items) >= 2 and any((not it["tree"]) or it.get("drop") for it in items)
        labs = [f"n_msgs:{len(items)}", f"kinds:{kinds}", f"stream_len:{min(len(data) // 50 * 50, 400)}"]
        labs.append("stream:" + ("read_only_object" if only_read is True else (f"BufferedReader({only_read})" if only_read else "BytesIO")))
        if any(it.get("sized_then_filled") for it in items):
            labs.append("instance_sized_before_filled_in_place")
        return Eval(fails, weight=1 + len(cuts), nontrivial_count=min(n_inside, len(cuts)) + (1 if multi else 0), labels=labs)

    def ev(case):
        if "only_cut" in case:  # replay of a single cut point
            full = evaluate({k: v for k, v in case.items() if k != "only_cut"})
            full.failures = [f for f in full.failures if f.case is None or f.case.get("only_cut") == case["only_cut"]]
            return full
        return evaluate(case)

    ts = cm.tree_strats(c, max_fields=4, max_depth=1)
    names = ["Scalars", "Optionals", "Repeats", "Maps", "Oneofs", "Wrappers", "Times", "Tags", "Rec", "Leaf", "Empty", "Empty"]

    @st.composite
    def item(draw):
        name = draw(st.sampled_from(names))
        mi = schema.msg(f"ks.{name}")
        tree = draw(st.one_of(st.just({}), ts.message(mi.full_name), ts.message(mi.full_name)))
        it = {"msg": name, "tree": tree}
        if mi.fields and draw(st.integers(0, 3)) == 0:
            nums = [f.number for f in mi.fields]
            set_nums = [f.number for f in mi.fields if f.name in tree] or nums
            it["drop"] = sorted(draw(st.lists(st.sampled_from(set_nums), unique=True, min_size=1, max_size=3)))
            if draw(st.integers(0, 2)) == 0:
                it["retyped"] = True
        if tree and draw(st.integers(0, 4)) == 0:
            it["sized_then_filled"] = True
        return it

    # bodies that cross the 1->2 byte (and 2->3 byte) length-prefix boundary through different field shapes
    big_item = st.sampled_from([
        {"msg": "Repeats", "tree": {"r_double": [1.5] * 17}},
        {"msg": "Repeats", "tree": {"r_int32": [-1] * 13, "r_float": [0.5] * 33}},
        {"msg": "Repeats", "tree": {"r_bool": [True] * 130}},
        {"msg": "Scalars", "tree": {"f_string": "x" * 127}},
        {"msg": "Scalars", "tree": {"f_string": "é" * 70, "f_bytes": b"\x00" * 60}},
        {"msg": "Maps", "tree": {"m_string_leaf": [["k" * 70, {"s": "v" * 70}]]}},
        {"msg": "Rec", "tree": {"rec": {"rec": {"leaf": {"s": "z" * 120}}}}},
        # empty elements of non-packed repeated fields / empty map values, at field numbers below and above 15
        {"msg": "Repeats", "tree": {"r_string": ["", "a", ""], "r_bytes": [b""], "r_leaf": [{}, {"i": 1}, {}], "r_empty": [{}, {}]}},
        {"msg": "Repeats", "tree": {"r_leaf": [{}], "r_ts": [0], "r_dur": [0, 1]}},
        # values at which an encoded length changes: zig-zag boundaries of the sint kinds, 7k-bit boundaries of the others
        {"msg": "Scalars", "tree": {"f_sint32": -64, "f_sint64": -8192, "f_int32": 127, "f_uint64": 2**63}},
        {"msg": "Scalars", "tree": {"f_sint32": -(2**20), "f_sint64": -(2**34), "f_int64": -1, "f_uint32": 2**28}},
        {"msg": "Optionals", "tree": {"o_sint32": -(2**27), "o_sint64": -(2**62), "o_int32": -1}},
        {"msg": "Oneofs", "tree": {"b_sint64": -(2**41), "a_int32": 16384}},
        {"msg": "Wrappers", "tree": {"w_int32": 0, "w_bool": False, "w_double": 0.0, "w_uint64": 0}},
        {"msg": "Times", "tree": {"ts": -500000, "dur": -500000, "r_ts": [-1, 0], "o_dur": -1}},
        {"msg": "Maps", "tree": {"m_string_leaf": [["", {}]], "m_string_empty": [["k", {}]], "m_int32_rec": [[0, {}]], "m_string_int64": [["", 0]]}},
    ] + ([{"msg": "Repeats", "tree": {"r_fixed64": [7] * 2050}}] if ctx.thorough else []) + [
        # a frame beyond 64 KiB made of a few records (one huge, some small before and after it)
        {"msg": "Scalars", "tree": {"f_int32": 5, "f_string": "s" * 66000, "f_bytes": b"tail", "f_bool": True}},
        {"msg": "Repeats", "tree": {"r_int32": [1, 2], "r_bytes": [b"x" * 40000, b"y" * 30000, b"z"], "r_string": ["end"]}},
    ] + [
        {"msg": "Repeats", "tree": {"r_leaf": [{"i": 1}] * 40, "r_string": ["ab"] * 30}, "drop": [18]},
    ])
    strat = st.tuples(st.lists(st.one_of(item(), item(), item(), item(), item(), big_item), min_size=0, max_size=6),
                      st.sampled_from([None, None, "only_read", 8, 16, 64, 4096])).map(
        lambda t: {"msgs": t[0], **({"only_read": True} if t[1] == "only_read" else ({"buffered": t[1]} if t[1] else {}))})
    return [__import__("vf.props._prog", fromlist=["target"]).target("C10", c, quick=200),
            Target("delimited_streams_all_cuts", ev, poison=_poison_fn, strategy=strat, quick=120, thorough=1500, time_quick=80),
            # the bundled google.protobuf classes (Struct, ListValue, Value, FieldMask, Any, wrappers, descriptors ...) as top-level
            # messages of a delimited stream: frame = varint(len(bytes)) + bytes, and it reads back alone
            __import__("vf.props._wkt", fromlist=["target"]).target("C10")]
