"""C08 Unknown fields survive decode/encode; schema evolution is lossless."""
from __future__ import annotations

import dataclasses
import typing

from hypothesis import strategies as st

from .. import wire
from ..engine import Eval, Failure, Guarded, Target, collecting, guard
from ..values import BPInfo, norm, snap_bp, snap_ref, to_ref
from . import _common as cm
from ._corpus import corpus

LEVEL = "exploration"
QUICK_SHARDS = 4
RULE = (
    "(a) Hypothesis (newer corpus message, value tree, set of deleted field numbers at top level and - for the "
    "aggregate message - inside each nested message type): the older reader is a betterproto class built with the "
    "public field API from the newer class minus the deleted fields. old=Old().parse(bytes(new)): old's known fields "
    "== projection of the tree; New().parse(bytes(old)) == tree; the reference decoder of the newer schema reads "
    "bytes(old) as the tree; the records of deleted top-level fields appear in bytes(old) byte-for-byte in arrival "
    "order; the decoding entry point is drawn from {parse, load, load(size), load(SIZE_DELIMITED) followed by "
    "further stream content}; with nested deletions the writer may emit every singular sub-message twice (an empty occurrence first). (b) (message, tree, generated unknown records - numbers absent from the schema incl. >=2**28, "
    "varint/fixed32/fixed64/LEN wire types, nested payloads - each with an insertion position): known-field snapshot "
    "unchanged, every inserted record re-emitted byte-for-byte in order, re-decoding stable. Non-trivial = >=1 "
    "deleted/unknown field actually present on the wire."
)
ASSUMPTIONS = ["older schemas are built with betterproto's public field API (dataclass_field), not by the plugin",
               "malformed groups are exercised under C17; well-formed unknown groups (nested up to 90 levels) are unknown fields here"]

_older_cache = {}


def make_older(cls, drop_top, nested_drops=None):
    """betterproto class = cls minus fields whose number is in drop_top; message-typed fields may be retargeted
    to older variants of their own type (nested_drops: {ClassName: frozenset(numbers)})."""
    import betterproto

    nested_drops = nested_drops or {}
    key = (cls, frozenset(drop_top), tuple(sorted((k, tuple(sorted(v))) for k, v in nested_drops.items())))
    if key in _older_cache:
        return _older_cache[key]
    info = BPInfo.of(cls)
    fields = []
    for f in dataclasses.fields(cls):
        meta = betterproto.FieldMetadata.get(f)
        if meta.number in drop_top:
            continue
        hint = info.hints[f.name]
        if nested_drops:
            hint = _retarget(hint, nested_drops)
        fields.append((f.name, hint, betterproto.dataclass_field(
            meta.number, meta.proto_type, map_types=meta.map_types, group=meta.group, wraps=meta.wraps, optional=bool(meta.optional))))
    ns = {}
    if len(frozenset(drop_top)) % 2:
        # what the plugin generates for a message with deprecated fields: an own __post_init__ that calls the base's
        # (half of the older readers - those that drop an odd number of fields - have one)
        def __post_init__(self):
            betterproto.Message.__post_init__(self)

        ns["__post_init__"] = __post_init__
    older = dataclasses.make_dataclass(f"{cls.__name__}Older", fields, bases=(betterproto.Message,), eq=False, repr=False, namespace=ns)
    _older_cache[key] = older
    return older


_retyped_cache = {}


def make_retyped(cls, numbers):
    """betterproto class = cls with the fields in `numbers` re-declared with an incompatible wire type (a reader whose
    schema disagrees with the writer's about these fields): length-delimited kinds become int32, all others string."""
    import betterproto

    key = (cls, frozenset(numbers))
    if key in _retyped_cache:
        return _retyped_cache[key]
    info = BPInfo.of(cls)
    fields = []
    for f in dataclasses.fields(cls):
        meta = betterproto.FieldMetadata.get(f)
        if meta.number in numbers:
            is_list = getattr(info.hints[f.name], "__origin__", None) is list
            if meta.proto_type in ("string", "bytes", "message", "map") or is_list:  # arrives as LEN (lists: packed)
                fields.append((f.name, int, betterproto.dataclass_field(meta.number, "int32", group=meta.group)))
            else:
                fields.append((f.name, str, betterproto.dataclass_field(meta.number, "string", group=meta.group)))
        else:
            fields.append((f.name, info.hints[f.name], betterproto.dataclass_field(
                meta.number, meta.proto_type, map_types=meta.map_types, group=meta.group, wraps=meta.wraps, optional=bool(meta.optional))))
    out = dataclasses.make_dataclass(f"{cls.__name__}Retyped", fields, bases=(betterproto.Message,), eq=False, repr=False)
    _retyped_cache[key] = out
    return out


def _retarget(hint, nested_drops):
    import betterproto

    if isinstance(hint, type) and issubclass(hint, betterproto.Message) and hint.__name__ in nested_drops:
        return make_older(hint, nested_drops[hint.__name__])
    args = getattr(hint, "__args__", None)
    origin = getattr(hint, "__origin__", None)
    if args and origin is not None:
        new_args = tuple(_retarget(a, nested_drops) for a in args)
        if new_args != args:
            if origin is list:
                return typing.List[new_args[0]]
            if origin is dict:
                return typing.Dict[new_args[0], new_args[1]]
            if origin is typing.Union:
                return typing.Optional[[a for a in new_args if a is not type(None)][0]]
    return hint


def project(schema, mi, tree, drop_top, nested_drops):
    """The tree as an older reader can know it."""
    out = {}
    for fi in mi.fields:
        if fi.name not in tree or fi.number in drop_top:
            continue
        v = tree[fi.name]
        sub_fi = fi.val if fi.card == "map" else fi
        if nested_drops and sub_fi.type == "message" and sub_fi.wkt is None:
            sub_name = sub_fi.msg.split(".")[-1]
            if sub_name in nested_drops:
                sub_mi = schema.msg(sub_fi.msg)
                pr = lambda t: project(schema, sub_mi, t, nested_drops[sub_name], None)  # noqa: E731
                if fi.card == "repeated":
                    v = [pr(x) for x in v]
                elif fi.card == "map":
                    v = [[k, pr(x)] for k, x in (v.items() if isinstance(v, dict) else v)]
                else:
                    v = pr(v)
        out[fi.name] = v
    return out


def decode_via(obj, data: bytes, entry: str):
    """Decode `data` into the fresh message `obj` through one of the public entry points."""
    from io import BytesIO

    import betterproto

    if entry == "parse":
        return obj.parse(data)
    if entry == "load":
        return obj.load(BytesIO(data))
    if entry == "load_size":
        return obj.load(BytesIO(data), len(data))
    if entry == "load_delimited":
        tail = b"\x08\x01\x7a\x01x"  # the beginning of a following message: must stay unread
        s = BytesIO(wire.enc_varint(len(data)) + data + tail)
        m = obj.load(s, betterproto.SIZE_DELIMITED)
        if s.tell() != len(wire.enc_varint(len(data))) + len(data):
            raise AssertionError(f"delimited load stopped at {s.tell()}, frame ends at {len(wire.enc_varint(len(data))) + len(data)}")
        return m
    raise AssertionError(entry)


ENTRIES = ["parse", "parse", "load", "load_size", "load_delimited"]


def targets(ctx):
    c = corpus()
    schema = c.schema

    # ------------------------------------------------------------------ (a) schema evolution
    @collecting
    def evo_clauses(out, name, tree, drop_top, nested_drops, src, info, entry="parse", dup=False):
        cls = c.bp(name)
        mi = schema.msg(f"ks.{name}")
        want = norm(schema, mi, tree)
        refmsg = to_ref(schema, c.ref, mi.full_name, tree)
        if src == "ref":
            b = refmsg.SerializeToString(deterministic=True)
        else:
            from ..values import BPAdapter

            b = guard("bytes_new", bytes, BPAdapter(schema).build(cls, mi, tree))
        if dup:
            # the writer emitted every singular sub-message twice: an empty occurrence first, then the real one (legal:
            # occurrences of a message field are merged / the last one wins - the same value either way); whatever the
            # later occurrence carries that the older reader does not know must survive
            recs2 = []
            try:
                seen_before = norm(schema, mi, snap_ref(schema, mi, c.ref.cls(mi.full_name).FromString(b)))
            except Exception:  # noqa: BLE001 - what betterproto wrote is already unreadable: reported by the clauses below
                seen_before = None
            for r_ in wire.parse_records(b):
                f_ = mi.by_number(r_.number)
                if f_ is not None and f_.card in ("single", "optional") and f_.type == "message" and f_.wkt is None and r_.wt == 2:
                    recs2.append(wire.make_record(r_.number, 2, b""))
                    info["dup_done"] = info.get("dup_done", 0) + 1
                recs2.append(r_)
            b = b"".join(x.raw for x in recs2)
            # soundness of the transformation itself: the reference reads the same value before and after it
            if seen_before is not None and norm(schema, mi, snap_ref(schema, mi, c.ref.cls(mi.full_name).FromString(b))) != seen_before:
                raise RuntimeError("reference disagrees on a duplicated sub-message occurrence (harness)")
        Old = make_older(cls, drop_top, nested_drops)
        old = guard("parse_old", decode_via, Old(), b, entry)
        # known fields of the older reader = projection (snapshot by field number through the older class)
        proj = norm(schema, mi, project(schema, mi, tree, drop_top, nested_drops))
        old_mi = _older_mi(schema, mi, drop_top, nested_drops)
        got_old = norm(old_mi[0], old_mi[1], guard("snapshot_old", snap_bp, old_mi[0], old_mi[1], old))
        if got_old != proj:
            out.append(("older_known_fields", f"older reader sees {got_old!r:.300}, want {proj!r:.300}"))
        b_old = guard("bytes_old", bytes, old)
        if guard("len_old", len, old) != len(b_old):
            out.append(("older_len_vs_bytes", f"len={len(old)} bytes={len(b_old)}"))
        new2 = guard("parse_new", decode_via, cls(), b_old, entry)
        got = norm(schema, mi, guard("snapshot_new", snap_bp, schema, mi, new2))
        if got != want:
            out.append(("evolution_roundtrip", f"after old reader/writer: {got!r:.300}, want {want!r:.300}"))
        try:
            r = c.ref.cls(mi.full_name).FromString(b_old)
            rgot = norm(schema, mi, snap_ref(schema, mi, r))
            if rgot != want:
                out.append(("evolution_reference_view", f"reference reads bytes(old) as {rgot!r:.300}, want {want!r:.300}"))
        except Exception as e:  # noqa: BLE001
            out.append(("evolution_reference_rejects", f"{type(e).__name__}: {e}"))
        # byte-for-byte re-emission of the dropped top-level records, in arrival order
        src_recs = [r.raw for r in wire.parse_records(b) if r.number in drop_top]
        try:
            out_recs = [r.raw for r in wire.parse_records(b_old) if r.number in drop_top]
            if src_recs != out_recs:
                out.append(("dropped_records_bytes", f"in={[x.hex() for x in src_recs]!r:.200} out={[x.hex() for x in out_recs]!r:.200}"))
        except wire.WireError as e:
            out.append(("older_output_malformed", str(e)))
        info["present"] = len(src_recs) + (1 if got_old != want and nested_drops else 0)

    def _older_mi(schema_, mi, drop_top, nested_drops):
        """(schema-like, MI) describing the older reader's message for snapshots."""
        import copy as _copy

        class _S:
            pass

        s = _S()
        s.enums = schema_.enums
        msgs = dict(schema_.messages)
        if nested_drops:
            for sub_name, drops in nested_drops.items():
                full = f"ks.{sub_name}"
                m = _copy.copy(msgs[full])
                m.fields = [f for f in m.fields if f.number not in drops]
                m.oneofs = {g: [f for f in fs if f.number not in drops] for g, fs in m.oneofs.items()}
                msgs[full + "#old"] = m
        top = _copy.copy(mi)
        top.fields = []
        for f in mi.fields:
            if f.number in drop_top:
                continue
            sub_fi = f.val if f.card == "map" else f
            if nested_drops and sub_fi.type == "message" and sub_fi.wkt is None and sub_fi.msg.split(".")[-1] in nested_drops:
                f = _copy.copy(f)
                if f.card == "map":
                    f.val = _copy.copy(f.val)
                    f.val.msg = f.val.msg + "#old"
                else:
                    f.msg = f.msg + "#old"
            top.fields.append(f)
        top.oneofs = {g: [f for f in top.fields if f.oneof == g] for g in mi.oneofs}
        top.oneofs = {g: fs for g, fs in top.oneofs.items() if fs}
        s.messages = msgs
        s.msg = lambda n: msgs[n]
        return s, top

    def evo_ev(case):
        name, tree = case["msg"], case["tree"]
        drop_top = set(case["drop"])
        nested = {k: frozenset(v) for k, v in case.get("nested", {}).items()} or None
        mi = schema.msg(f"ks.{name}")
        info = {}
        entry = case.get("entry", "parse")
        found = evo_clauses(name, tree, drop_top, nested, case.get("src", "ref"), info, entry, case.get("dup", False))
        kinds = sorted({mi.by_number(n).kind for n in drop_top if mi.by_number(n) and mi.by_number(n).name in tree})
        fails = []
        for cl, d in found:
            # which single dropped field is enough?
            culprit = []
            for n in sorted(drop_top):
                if any(c2 == cl for c2, _ in evo_clauses(name, tree, {n}, None, case.get("src", "ref"), {}, entry, case.get("dup", False))):
                    fi = mi.by_number(n)
                    culprit.append(fi.kind if fi else str(n))
            if case.get("dup") and not culprit and not any(c2 == cl for c2, _ in evo_clauses(name, tree, drop_top, nested, case.get("src", "ref"), {}, entry, False)):
                culprit = ["submessage_sent_twice"]
            where = "&".join(sorted(set(culprit))) or ("nested:" + "+".join(sorted(nested)) if nested else "interaction:" + "&".join(kinds))
            fails.append(Failure(cl, f"evo|{cl}|{where}|{entry}"[:240], f"case={case!r} :: {d}"))
        dropped_present = [n for n in drop_top if mi.by_number(n) and mi.by_number(n).name in tree]
        labs = [f"msg:{name}", f"dropped_present:{min(len(dropped_present), 4)}", f"nested:{bool(nested)}"] + [f"dropkind:{k}" for k in kinds]
        if info.get("dup_done"):
            labs.append("submessage_sent_twice" + ("_with_nested_drops" if nested else ""))
        return Eval(fails, nontrivial=bool(dropped_present) or bool(nested and info.get("present")), labels=labs)

    ts = cm.tree_strats(c, max_fields=7)
    names = ["Scalars", "Optionals", "Repeats", "Maps", "Oneofs", "Wrappers", "Times", "Tags", "Rec", "Mixed"]

    @st.composite
    def evo_strat(draw):
        name = draw(st.sampled_from(names))
        mi = schema.msg(f"ks.{name}")
        tree = draw(ts.message(mi.full_name))
        nums = [f.number for f in mi.fields]
        set_nums = [f.number for f in mi.fields if f.name in tree]
        # bias deletions toward fields that are actually set; sometimes delete everything
        mode = draw(st.sampled_from(["some", "some", "set_only", "all", "all_set"]))
        if mode == "all":
            drop = list(nums)
        elif mode == "all_set":
            drop = list(set_nums)
        elif mode == "set_only" and set_nums:
            drop = draw(st.lists(st.sampled_from(set_nums), unique=True, min_size=1))
        else:
            drop = draw(st.lists(st.sampled_from(nums), unique=True, max_size=len(nums)))
        case = {"msg": name, "tree": tree, "drop": sorted(drop), "src": draw(st.sampled_from(["ref", "bp"])), "entry": draw(st.sampled_from(ENTRIES))}
        if name in ("Mixed", "Rec", "Scalars", "Maps", "Repeats", "Oneofs", "Optionals"):
            subs = sorted({(f.val if f.card == "map" else f).msg.split(".")[-1] for f in mi.fields
                           if (f.val if f.card == "map" else f).type == "message" and (f.val if f.card == "map" else f).wkt is None})
            subs = [s for s in subs if s != name and s != "Rec" and schema.msg(f"ks.{s}").fields]
            if subs and draw(st.booleans()):
                nested = {}
                for s in draw(st.lists(st.sampled_from(subs), unique=True, min_size=1, max_size=3)):
                    snums = [f.number for f in schema.msg(f"ks.{s}").fields]
                    nested[s] = sorted(draw(st.one_of(st.just(snums), st.lists(st.sampled_from(snums), unique=True, min_size=1))))
                case["nested"] = nested
                case["dup"] = draw(st.sampled_from([False, True]))
        return case

    # ------------------------------------------------------------------ (b) unknown records
    @collecting
    def unk_clauses(out, name, tree, unknown, positions, entry="parse", unknown2=(), copy_between=None):
        cls = c.bp(name)
        mi = schema.msg(f"ks.{name}")
        want = norm(schema, mi, tree)
        recs = wire.parse_records(to_ref(schema, c.ref, mi.full_name, tree).SerializeToString(deterministic=True))
        urecs = [cm.unknown_to_record(u) for u in unknown]
        data = b"".join(r.raw for r in cm.interleave(recs, urecs, positions))
        # soundness guard: the reference must read the same known fields
        r = c.ref.cls(mi.full_name).FromString(data)
        if norm(schema, mi, snap_ref(schema, mi, r)) != want:
            raise RuntimeError("reference disagrees on an interleaved encoding (harness)")
        groups = [x.raw for x in urecs if x.wt == 3] + [cm.unknown_to_record(u).raw for u in unknown2 if u["wt"] == 3]
        m = guard("parse", decode_via, cls(), data, entry)
        unknown_numbers = {u["n"] for u in unknown} | {u["n"] for u in unknown2}
        inserted_in_order = [r.raw for r in wire.parse_records(data) if r.number in unknown_numbers]
        if unknown2:
            # a second payload (unknown records only) decoded into the SAME instance: everything received stays
            more = [cm.unknown_to_record(u).raw for u in unknown2]
            twin = None
            if copy_between:
                # a copy taken BEFORE the second payload arrives must keep re-emitting what it held at that time
                import copy as _copy

                twin = guard("copy_between", _copy.copy if copy_between == "shallow" else _copy.deepcopy, m)
                twin_bytes = guard("bytes_twin", bytes, twin)
            guard("parse_second", decode_via, m, b"".join(more), "load" if entry.startswith("load") else "parse")
            if twin is not None and guard("bytes_twin_after", bytes, twin) != twin_bytes:
                out.append(("copy_sees_later_unknown_fields", f"{copy_between} copy before={twin_bytes.hex()[:160]} after={bytes(twin).hex()[:160]}"))
            inserted_in_order = inserted_in_order + [r.raw for r in wire.parse_records(b"".join(more)) if r.number in unknown_numbers]
        got = norm(schema, mi, guard("snapshot", snap_bp, schema, mi, m))
        if got != want:
            out.append(("unknown_disturbs_known", f"got {got!r:.300} want {want!r:.300}"))
        b2 = guard("bytes", bytes, m)
        try:
            emitted = [r.raw for r in wire.parse_records(b2) if r.number in unknown_numbers]
            if emitted != inserted_in_order:
                out.append(("unknown_not_reemitted", f"in={[x.hex() for x in inserted_in_order]!r:.240} out={[x.hex() for x in emitted]!r:.240}"))
        except wire.WireError as e:
            out.append(("output_malformed", str(e)))
        for g in groups:
            if g not in b2:
                out.append(("unknown_group_not_reemitted_as_a_whole", f"group={g.hex()[:120]} out={b2.hex()[:240]}"))
        if guard("len", len, m) != len(b2):
            out.append(("len_vs_bytes_with_unknown", f"len={len(m)} bytes={len(b2)}"))
        m3 = guard("reparse", cls().parse, b2)
        if guard("bytes3", bytes, m3) != b2:
            out.append(("unknown_reencode_unstable", "second re-encode differs"))
        try:
            r2 = c.ref.cls(mi.full_name).FromString(b2)
            if norm(schema, mi, snap_ref(schema, mi, r2)) != want:
                out.append(("reference_view_after_reencode", "known fields changed for the reference"))
        except Exception as e:  # noqa: BLE001
            out.append(("reference_rejects_reencoded", f"{e}"))

    def unk_ev(case):
        name, tree, unknown, pos = case["msg"], case["tree"], case["unknown"], case["pos"]
        entry = case.get("entry", "parse")
        unknown2 = case.get("unknown2", [])
        found = unk_clauses(name, tree, unknown, pos, entry, unknown2, case.get("copy_between"))
        wts = sorted({u["wt"] for u in unknown})
        fails = []
        for cl, d in found:
            single = [u for i, u in enumerate(unknown) if any(c2 == cl for c2, _ in unk_clauses(name, tree, [u], [pos[i]], entry))]
            where = "+".join(sorted({f"wt{u['wt']}" + ("_deep" if u.get("depth", 0) >= 10 else "") + ("_bigtag" if u["n"] >= 2**21 else "") + ("_padded" if any(u.get(k) for k in ("tp", "lp", "vp")) else "") for u in single})) or ("second_payload" if unknown2 else "combo")
            fails.append(Failure(cl, f"unk|{cl}|{where}|{entry}", f"case={case!r} :: {d}"))
        n_known = len(tree)
        labs = [f"msg:{name}"] + [f"wt:{w}" for w in wts] + [f"n_unknown:{len(unknown)}"] + [f"group_depth:{u['depth']}" for u in unknown if u["wt"] == 3]
        if unknown2:
            labs.append("second_payload_into_same_instance")
        if case.get("copy_between"):
            labs.append("copy_taken_between_payloads:" + case["copy_between"])
        if any(u.get(k) for u in unknown for k in ("tp", "lp", "vp")):
            labs.append("non_minimal_varint_in_unknown_record")
        for p in pos:
            labs.append("position:" + ("first" if p % (n_known + 1) == 0 else "other"))
        return Eval(fails, nontrivial=bool(unknown), labels=labs)

    base = cm.msg_tree_strategy(c)

    @st.composite
    def unk_strat(draw):
        case = dict(draw(base))
        mi = schema.msg(f"ks.{case['msg']}")
        us = draw(st.lists(cm.unknown_record_strategy(cm.unused_numbers(mi)), min_size=1, max_size=4))
        case["unknown"] = us
        case["pos"] = draw(st.lists(st.integers(0, 40), min_size=len(us), max_size=len(us)))
        case["entry"] = draw(st.sampled_from(ENTRIES))
        if draw(st.integers(0, 3)) == 0:
            case["unknown2"] = draw(st.lists(cm.unknown_record_strategy(cm.unused_numbers(mi)), min_size=1, max_size=2))
            case["copy_between"] = draw(st.sampled_from([None, "shallow", "shallow", "deep"]))
        return case

    # ------------------------------------------------------------------ (c) unknown fields INSIDE a sub-message, and
    # a relay that does something ordinary with the decoded message before it encodes it again
    # (loading a dict into an existing message - from_dict / from_pydict on an instance - is not a relay in this sense: whether
    # that merges into or replaces an existing sub-message is dict-loading semantics no listed property fixes; from_dict replaces)
    RELAYS = ["none", "rewrap_ctor", "setattr_same", "copy", "deepcopy"]

    def relay_clauses(name, tree, unknown, relay, variant, entry):
        out = []
        cv = corpus(opts=(variant,)) if variant != "default" else c
        cls = cv.bp(name)
        mi = schema.msg(f"ks.{name}")
        want = norm(schema, mi, tree)
        recs = wire.parse_records(to_ref(schema, c.ref, mi.full_name, tree).SerializeToString(deterministic=True))
        urecs = [cm.unknown_to_record(u) for u in unknown]
        host = None
        for i, r_ in enumerate(recs):
            f_ = mi.by_number(r_.number)
            if f_ is not None and f_.card in ("single", "optional", "repeated") and f_.type == "message" and f_.wkt is None and r_.wt == 2:
                host = (i, f_)
                break
        if host is None:
            return None  # no sub-message on the wire: nothing to carry nested unknown fields
        i, hf = host
        sub_used = {f.number for f in schema.msg(hf.msg).fields}
        urecs = [u for u in urecs if u.number not in sub_used]
        if not urecs:
            return None
        recs[i] = wire.make_record(hf.number, 2, recs[i].payload + b"".join(u.raw for u in urecs))
        data = b"".join(r_.raw for r_ in recs)
        if norm(schema, mi, snap_ref(schema, mi, c.ref.cls(mi.full_name).FromString(data))) != want:
            raise RuntimeError("reference disagrees on nested unknown records (harness)")
        try:
            m = guard("parse", decode_via, cls(), data, entry)
            info = BPInfo.of(cls)
            hname = info.pyname(hf)
            if relay == "rewrap_ctor":
                kw = {}
                for fi in mi.fields:
                    try:
                        v = getattr(m, info.pyname(fi))
                    except AttributeError:
                        continue  # an unselected oneof member
                    if fi.oneof and v is None:
                        continue
                    if fi.type == "message" and fi.wkt is None and fi.card == "single" and not fi.oneof:
                        import betterproto as _bp

                        if not _bp.serialized_on_wire(v):
                            continue  # a sub-message that is not there is not handed on (reading it created a default)
                    kw[info.pyname(fi)] = v
                m = guard("rewrap", lambda: cls(**kw))
            elif relay == "setattr_same":
                guard("setattr_same", setattr, m, hname, getattr(m, hname))
            elif relay == "copy":
                import copy as _copy

                m = guard("copy", _copy.copy, m)
            elif relay == "deepcopy":
                import copy as _copy

                m = guard("deepcopy", _copy.deepcopy, m)
            b2 = guard("bytes", bytes, m)
            got = norm(schema, mi, guard("snapshot", snap_bp, schema, mi, guard("reparse", c.bp(name)().parse, b2)))
            if got != want:
                out.append(("known_fields_changed_by_relay", __import__("vf.values", fromlist=["tree_diff"]).tree_diff(got, want)))
            for u in urecs:
                if u.raw not in b2:
                    out.append(("nested_unknown_lost", f"record {u.raw.hex()[:60]} of sub-message {hf.name} missing from {b2.hex()[:200]}"))
                    break
            if guard("len", len, m) != len(b2):
                out.append(("len_vs_bytes_with_nested_unknown", f"len={len(m)} bytes={len(b2)}"))
        except Guarded as g:
            out.append((f"raises_{g.where}_{type(g.exc).__name__}", str(g)[:300]))
        return out

    def relay_ev(case):
        name, tree = case["msg"], case["tree"]
        relay, variant, entry = case["relay"], case.get("variant", "default"), case.get("entry", "parse")
        found = relay_clauses(name, tree, case["unknown"], relay, variant, entry)
        if found is None:
            return Eval(discard="no sub-message on the wire to carry nested unknown fields")
        tag = "" if variant == "default" else f"|{variant}"
        fails = [Failure(cl, f"relay|{cl}|{relay}{tag}", f"case={case!r:.900} :: {d}") for cl, d in found]
        return Eval(fails, nontrivial=True, labels=[f"relay:{relay}", f"relay_variant:{variant}", f"msg:{name}"])

    relay_base = cm.msg_tree_strategy(c, names=["Mixed"] * 3 + ["Rec"] * 3 + ["Scalars"] * 2 + ["Holder"] * 3 + ["Box", "Optionals", "Repeats", "Oneofs"])

    @st.composite
    def relay_strat(draw):
        case = dict(draw(relay_base))
        case["unknown"] = draw(st.lists(cm.unknown_record_strategy([1000, 2047, 19, 2**21, 15, 16]), min_size=1, max_size=3))
        case["relay"] = draw(st.sampled_from(RELAYS))
        case["variant"] = draw(st.sampled_from(["default", "default", "pydantic_dataclasses"]))
        case["entry"] = draw(st.sampled_from(ENTRIES))
        return case

    return [
        __import__("vf.props._twover", fromlist=["target"]).target(),
        *__import__("vf.props._thr", fromlist=["target"]).target(ctx, ["parse_unknown"], quick_points=120),
        Target("nested_unknown_through_relays", relay_ev, strategy=relay_strat(), quick=350, thorough=5000, time_quick=50,
               rule="unknown records inside a sub-message (singular / optional / repeated) of a decoded message that is then re-wrapped by the constructor, re-assigned, copied - in the default and the pydantic output - must still be re-emitted; known fields unchanged"),
        Target("schema_evolution", evo_ev, strategy=evo_strat(), quick=450, thorough=6000, time_quick=80),
        Target("unknown_records", unk_ev, strategy=unk_strat(), quick=350, thorough=5000, time_quick=60),
    ]
