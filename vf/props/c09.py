"""C09 len(m) equals the encoded size and dump() writes exactly bytes(m)."""
from __future__ import annotations

from io import BytesIO

from hypothesis import strategies as st

from .. import wire
from ..engine import Eval, Failure, Guarded, Target, guard
from ..values import BPAdapter, to_ref
from . import _common as cm
from ._corpus import corpus

LEVEL = "exploration"
QUICK_SHARDS = 4
RULE = (
    "Hypothesis value trees over the kitchen-sink corpus (all scalar kinds x singular/optional/repeated/map/oneof, "
    "wrappers, Timestamp/Duration, recursive messages, tag-boundary field numbers), built by constructor kwargs, by "
    "attribute assignment, by in-place mutation of lazily created containers / sub-messages, or obtained by parsing reference bytes with generated unknown records interleaved. "
    "Oracle: len(m)==len(bytes(m)); dump(BytesIO)==bytes(m); dump(SIZE_DELIMITED)==spec_varint(len)+bytes(m); "
    "SerializeToString()==bytes(m). Non-trivial = encoded size>0 and >=1 of {present-but-empty member, unknown "
    "fields, size>=128, packed list, map, wrapper}."
)
ASSUMPTIONS = ["spec varint encoder (vf/wire.py) for the expected length prefix"]


def targets(ctx):
    import betterproto

    c = corpus()
    from . import _poison

    _poison_fn = lambda: _poison.apply(c)  # noqa: E731
    schema = c.schema
    adapter = BPAdapter(schema)

    def build(name, tree, route, unknown=(), positions=()):
        cls = c.bp(name)
        mi = schema.msg(f"ks.{name}")
        if route == "parse":
            recs = wire.parse_records(to_ref(schema, c.ref, mi.full_name, tree).SerializeToString(deterministic=True))
            recs = cm.interleave(recs, [cm.unknown_to_record(u) for u in unknown], list(positions))
            data = b"".join(r.raw for r in recs)
            return guard("parse", cls().parse, data)
        return guard("build", adapter.build, cls, mi, tree, route)

    def clauses(m):
        out = []
        b = guard("bytes", bytes, m)
        n = guard("len", len, m)
        if n != len(b):
            out.append(("len_vs_bytes", f"len={n} len(bytes)={len(b)} bytes={b.hex()[:200]}"))
        s = BytesIO()
        guard("dump", m.dump, s)
        if s.getvalue() != b:
            out.append(("dump_vs_bytes", f"dump={s.getvalue().hex()[:200]} bytes={b.hex()[:200]}"))
        class Keep:  # a sink that keeps the chunks it is handed instead of copying them
            def __init__(self):
                self.chunks = []

            def write(self, x):
                self.chunks.append(x)
                return len(x)

        k = Keep()
        guard("dump_keeping_sink", m.dump, k)
        if b"".join(bytes(x) for x in k.chunks) != b:
            out.append(("dump_chunks_vs_bytes", f"chunks={b''.join(bytes(x) for x in k.chunks).hex()[:200]} bytes={b.hex()[:200]}"))
        s = BytesIO()
        guard("dump_delimited", m.dump, s, betterproto.SIZE_DELIMITED)
        want = wire.enc_varint(len(b)) + b
        if s.getvalue() != want:
            out.append(("dump_delimited", f"got={s.getvalue().hex()[:200]} want={want.hex()[:200]}"))
        sts = guard("SerializeToString", m.SerializeToString)
        if sts != b:
            out.append(("serialize_to_string", f"got={sts.hex()[:200]} want={b.hex()[:200]}"))
        return out, b

    def mutate_in_place(m) -> bool:
        """Change the message WITHOUT assigning any of its own attributes: append to a list it holds, add a map entry,
        set a field of a sub-message it holds. -> whether something was changed."""
        import dataclasses as _dc

        for f in _dc.fields(m):
            try:
                v = getattr(m, f.name)
            except AttributeError:  # unselected oneof member
                continue
            if isinstance(v, list) and v:
                v.append(v[0])
                return True
            if isinstance(v, dict) and v:
                k, x = next(iter(v.items()))
                nk = (not k) if isinstance(k, bool) else (k + "x" if isinstance(k, str) else (k + 1 if k < 2**31 - 2 else k - 1))
                if nk not in v:
                    v[nk] = x
                    return True
            if isinstance(v, betterproto.Message) and betterproto.serialized_on_wire(v):
                for g in _dc.fields(v):
                    try:
                        x = getattr(v, g.name)
                    except AttributeError:
                        continue
                    if isinstance(x, str):
                        setattr(v, g.name, x + "x")
                        return True
                    if type(x) is int:
                        setattr(v, g.name, 1 if x != 1 else 2)
                        return True
        return False

    def all_clauses(m):
        """The clauses on the message as built, then again after an in-place mutation (a second observation of the
        same instance must not rely on anything remembered from the first)."""
        found, b = clauses(m)
        mutated = guard("mutate_in_place", mutate_in_place, m)
        if mutated:
            again, _ = clauses(m)
            found = found + [(cl + "_after_in_place_mutation", d) for cl, d in again]
        return found, b, mutated

    def fails_clause(route, clause):
        def f(mi, tree):
            name = mi.full_name.split(".")[-1]
            try:
                m = build(name, tree, route)
                return any(cl == clause for cl, _ in all_clauses(m)[0])
            except Guarded as g:
                return clause == f"raises_{g.where}_{type(g.exc).__name__}"

        return f

    def ev(case):
        name, tree, route = case["msg"], case["tree"], case["route"]
        unknown = case.get("unknown", []) if route == "parse" else []
        mi = schema.msg(f"ks.{name}")
        fails = []
        b = b""
        try:
            m = build(name, tree, route, unknown, case.get("pos", []))
            found, b, mutated = all_clauses(m)
        except Guarded as g:
            mutated = False
            found = [(f"raises_{g.where}_{type(g.exc).__name__}", str(g))]
        for clause, detail in found:
            for where in cm.culprits(schema, mi, tree, fails_clause(route, clause)):
                if unknown and where.startswith("interaction"):
                    where = "unknown_fields"
                fails.append(Failure(clause, f"{clause}|{route}|{where}", f"msg={name} tree={tree!r} :: {detail}"))
        kinds = cm.labels_for(schema, mi, tree)
        marks = 0
        descr = [cm.describe(schema, fi, tree[fi.name]) for fi in mi.fields if fi.name in tree]
        if unknown:
            marks += 1
        if len(b) >= 128:
            marks += 1
        if any(d.startswith("map<") or d.startswith("repeated:") or "wrap_" in d for d in descr):
            marks += 1
        if any(("=empty" in d or "=zero" in d or "=false" in d) and (d.startswith("optional:") or d.startswith("oneof:") or d.startswith("single:message")) for d in descr):
            marks += 1
        labs = kinds + [f"route:{route}", f"unknown:{min(len(unknown), 3)}", f"size>=128:{len(b) >= 128}", f"observed_again_after_in_place_mutation:{mutated}"]
        return Eval(fails, nontrivial=len(b) > 0 and marks > 0, labels=labs)

    base = cm.msg_tree_strategy(c)

    @st.composite
    def strat(draw):
        case = dict(draw(base))
        case["route"] = draw(st.sampled_from(["kwargs", "kwargs", "setattr", "lazy", "parse", "parse"]))
        if case["route"] == "parse":
            mi = schema.msg(f"ks.{case['msg']}")
            us = draw(st.lists(cm.unknown_record_strategy(cm.unused_numbers(mi)), max_size=3))
            case["unknown"] = us
            case["pos"] = draw(st.lists(st.integers(0, 40), min_size=len(us), max_size=len(us)))
        return case

    # big messages: force sizes across the 1-byte/2-byte length-prefix boundary
    @st.composite
    def big(draw):
        n = draw(st.sampled_from([120, 126, 127, 128, 129, 200, 16383, 16384, 16385]))
        kind = draw(st.sampled_from(["string", "bytes", "packed_bool", "packed_double", "nested", "map"]))
        if kind == "string":
            return {"msg": "Scalars", "tree": {"f_string": "x" * n}, "route": "kwargs"}
        if kind == "bytes":
            return {"msg": "Optionals", "tree": {"o_bytes": b"\x01" * n}, "route": "kwargs"}
        if kind == "packed_bool":
            return {"msg": "Repeats", "tree": {"r_bool": [True] * n}, "route": "kwargs"}
        if kind == "packed_double":
            return {"msg": "Repeats", "tree": {"r_double": [1.5] * (n // 8 + 1), "r_int32": [-1] * (n // 10 + 1)}, "route": "kwargs"}
        if kind == "nested":
            return {"msg": "Mixed", "tree": {"scalars": {"f_leaf": {"s": "y" * n}, "f_int32": -1}}, "route": "kwargs"}
        return {"msg": "Maps", "tree": {"m_string_leaf": [["k" * n, {"s": "v" * n}]], "m_bool_string": [[True, ""]]}, "route": "kwargs"}

    # long packed lists: element counts around the powers of two (a count threshold in the writer or in the size computation)
    LONG_TYPES = {"r_uint32": lambda i: (i * 37) % 300, "r_sint64": lambda i: -(i % 200), "r_fixed32": lambda i: i, "r_double": lambda i: float(i % 7), "r_bool": lambda i: i % 3 == 0,
                  "r_color": lambda i: (0, 1, 2, -1, 1000)[i % 5], "r_int32": lambda i: -1 if i % 50 == 0 else i % 128, "r_sfixed64": lambda i: -i}

    def long_cases():
        top = 18 if ctx.thorough else 16
        for k in range(7, top + 1):
            for d in (-1, 0, 1):
                n = 2**k + d
                for j, name in enumerate(LONG_TYPES):
                    if ctx.thorough or (k + j + d) % 3 == 0 or k == 16:
                        yield {"long": name, "n": n}

    def long_ev(case):
        import betterproto
        from io import BytesIO

        name, n = case["long"], case["n"]
        f = LONG_TYPES[name]
        vals = [f(i) for i in range(n)]
        cls = c.bp("Repeats")
        fails = []
        try:
            for route in ("ctor", "parse"):
                m = guard("construct", lambda: cls(**{name: list(vals)}))
                if route == "parse":
                    m = guard("parse", cls().parse, guard("bytes0", bytes, m))
                b = guard("bytes", bytes, m)
                ln = guard("len", len, m)
                if ln != len(b):
                    fails.append(Failure("len_vs_bytes", f"long_packed|len_vs_bytes|{name}", f"{name} x {n} ({route}): len(m)={ln} len(bytes(m))={len(b)}"))
                s1 = BytesIO()
                guard("dump", m.dump, s1)
                if s1.getvalue() != b:
                    fails.append(Failure("dump_vs_bytes", f"long_packed|dump_vs_bytes|{name}", f"{name} x {n} ({route}): dump wrote {len(s1.getvalue())} bytes, bytes(m) has {len(b)}"))
                s2 = BytesIO()
                guard("dump_delimited", m.dump, s2, betterproto.SIZE_DELIMITED)
                if s2.getvalue() != wire.enc_varint(len(b)) + b:
                    fails.append(Failure("delimited_frame", f"long_packed|delimited_frame|{name}", f"{name} x {n} ({route}): frame of {len(s2.getvalue())} bytes for a message of {len(b)}"))
                if guard("serialize_to_string", m.SerializeToString) != b:
                    fails.append(Failure("serialize_to_string_vs_bytes", f"long_packed|serialize_to_string|{name}", f"{name} x {n}"))
                try:
                    r = c.rf("Repeats").FromString(b)
                except Exception as e:  # noqa: BLE001 - what was written is not a message at all
                    fails.append(Failure("reference_rejects_bytes", f"long_packed|reference_rejects|{name}", f"{name} x {n} ({route}): {e}"))
                    continue
                if len(getattr(r, name)) != n or list(getattr(r, name))[-3:] != [x for x in vals[-3:]]:
                    fails.append(Failure("reference_reads_other_list", f"long_packed|reference|{name}", f"{name} x {n} ({route}): the reference reads {len(getattr(r, name))} elements"))
        except Guarded as g:
            fails.append(Failure(f"raises_{g.where}", f"long_packed|raises_{g.where}_{type(g.exc).__name__}|{name}", f"{name} x {n}: {g}"))
        return Eval(fails, weight=2, nontrivial_count=2, labels=[f"long_packed:{name}", f"long_packed_n>=65536:{n >= 65536}"])

    from . import _seq

    from . import _wkt

    return [
        __import__("vf.props._prog", fromlist=["target"]).target("C09", c),
        __import__("vf.props._inherit", fromlist=["target"]).target(c),
        Target("corpus_values", ev, poison=_poison_fn, strategy=strat(), quick=700, thorough=8000, time_quick=70),
        Target("length_prefix_boundaries", ev, poison=_poison_fn, strategy=big(), quick=150, thorough=400),
        Target("long_packed_lists", long_ev, cases=long_cases, exhaustive=True,
               rule="packed lists of 2^k-1 / 2^k / 2^k+1 elements (k = 7..16, thorough ..18) x 8 element types x {constructed, decoded}: len, dump, SIZE_DELIMITED frame, SerializeToString, reference element count"),
        _seq.target("C09"),
        _wkt.target("C09"),
    ]
