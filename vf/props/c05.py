"""C05 JSON output and input follow the canonical proto3 JSON mapping (differential with json_format)."""
from __future__ import annotations

from hypothesis import strategies as st

from ..engine import Eval, Failure, Guarded, Target, collecting, guard
from ..values import BPAdapter, norm, snap_bp, snap_ref, to_ref
from . import _common as cm
from ._corpus import corpus
from .c04 import json_nontrivial

LEVEL = "exploration"
QUICK_SHARDS = 4
RULE = (
    "Hypothesis value trees (microsecond-resolution times) over the kitchen-sink corpus. Clauses: "
    "json_format.Parse(bp.to_json(), Ref()) succeeds and equals the reference message built from the tree; "
    "Bp().from_json(json_format.MessageToJson(ref)) has the tree's snapshot (also with "
    "preserving_proto_field_name=True, i.e. original proto names as keys). Non-trivial as C04; labelled by the "
    "canonical rule exercised (int64-as-string, base64, enum name, NaN/Infinity, RFC 3339, duration suffix)."
)
ASSUMPTIONS = ["google.protobuf.json_format 7.36.1 is the reference for the canonical mapping"]


def targets(ctx):
    from google.protobuf import json_format

    c = corpus()
    schema = c.schema
    adapter = BPAdapter(schema)

    @collecting
    def clauses(out, name, tree, proto_names):
        cls = c.bp(name)
        mi = schema.msg(f"ks.{name}")
        want = norm(schema, mi, tree)
        # betterproto -> reference
        try:
            m = guard("build", adapter.build, cls, mi, tree)
            text = guard("to_json", m.to_json)
            try:
                r = json_format.Parse(text, c.ref.cls(mi.full_name)())
                got = norm(schema, mi, snap_ref(schema, mi, r))
                if got != want:
                    out.append(("bp_json_to_ref", f"reference reads betterproto JSON as {got!r:.300}, want {want!r:.300}; json={text:.300}"))
            except json_format.ParseError as e:
                out.append(("bp_json_rejected_by_ref", f"{e}; json={text:.300}"))
        except Guarded as g:
            out.append((f"raises_{g.where}_{type(g.exc).__name__}", str(g)))
        # reference -> betterproto
        refmsg = to_ref(schema, c.ref, mi.full_name, tree)
        rtext = json_format.MessageToJson(refmsg, preserving_proto_field_name=proto_names)
        m2 = guard("from_json_ref", cls().from_json, rtext)
        got = norm(schema, mi, guard("snapshot", snap_bp, schema, mi, m2))
        if got != want:
            out.append(("ref_json_to_bp", f"betterproto reads reference JSON as {got!r:.300}, want {want!r:.300}; json={rtext:.300}"))

    def fails_clause(proto_names, clause):
        def f(mi, tree):
            name = mi.full_name.split(".")[-1]
            return any(cl == clause for cl, _ in clauses(name, tree, proto_names))

        return f

    def ev(case):
        name, tree, pn = case["msg"], case["tree"], case.get("proto_names", False)
        mi = schema.msg(f"ks.{name}")
        found = clauses(name, tree, pn)
        fails = []
        for clause, detail in found:
            fails += cm.failures_for(schema, mi, tree, clause, f"msg={name} proto_names={pn} tree={tree!r} :: {detail}",
                                     fails_clause(pn, clause))
        rules = []
        for fi in mi.fields:
            if fi.name in tree:
                k = fi.kind
                for mark, lab in (("int64", "int64_as_string"), ("fixed64", "int64_as_string"), ("bytes", "base64"),
                                  ("enum", "enum_name"), ("timestamp", "rfc3339"), ("duration", "duration_s"),
                                  ("float", "float_special"), ("double", "float_special")):
                    if mark in k:
                        rules.append("rule:" + lab)
                if fi.json_name != fi.name:
                    rules.append("rule:camel_key")
        return Eval(fails, nontrivial=json_nontrivial(schema, mi, tree), labels=cm.labels_for(schema, mi, tree) + sorted(set(rules)))

    base = cm.msg_tree_strategy(c)

    @st.composite
    def strat(draw):
        case = dict(draw(base))
        case["proto_names"] = draw(st.booleans())
        return case

    return [Target("corpus_values_json_vs_reference", ev, strategy=strat(), quick=600, thorough=7000, time_quick=70)]
