"""C05 JSON output and input follow the canonical proto3 JSON mapping (differential with json_format)."""
from __future__ import annotations

from hypothesis import strategies as st

from ..engine import Eval, Failure, Guarded, Target, collecting, guard
from ..values import BPAdapter, norm, snap_bp, snap_ref, to_ref
from . import _common as cm
from ._corpus import corpus
from .c04 import json_nontrivial

LEVEL = "exploration"
QUICK_SHARDS = 4
RULE = (
    "Hypothesis value trees (microsecond-resolution times; aware datetimes with a drawn UTC offset; generated-code "
    "variant default, typing.310 or pydantic_dataclasses; construction route kwargs / setattr / lazy in-place filling / constructor given several members of one oneof group) over the kitchen-sink corpus. Clauses: "
    "json_format.Parse(bp.to_json(), Ref()) succeeds and equals the reference message built from the tree; "
    "Bp().from_json(json_format.MessageToJson(ref)) has the tree's snapshot (also with "
    "preserving_proto_field_name=True, i.e. original proto names as keys). Non-trivial as C04; labelled by the "
    "canonical rule exercised (int64-as-string, base64, enum name, NaN/Infinity, RFC 3339, duration suffix)."
)
ASSUMPTIONS = ["google.protobuf.json_format 7.36.1 is the reference for the canonical mapping"]


def targets(ctx):
    from google.protobuf import json_format

    c = corpus()
    c310 = corpus(opts=("typing.310",))
    schema = c.schema
    adapters = {}
    _enum_as = ["member"]

    def adapter_for(tz, enum_as="member"):
        if (tz, enum_as) not in adapters:
            adapters[(tz, enum_as)] = BPAdapter(schema, tz_offset_min=tz, enum_as=enum_as)
        return adapters[(tz, enum_as)]

    @collecting
    def clauses(out, name, tree, proto_names, variant="default", tz=0, route="kwargs"):
        cls = (c310 if variant == "typing.310" else (corpus(opts=("pydantic_dataclasses",)) if variant == "pydantic" else c)).bp(name)
        adapter = adapter_for(tz, _enum_as[0])
        mi = schema.msg(f"ks.{name}")
        want = norm(schema, mi, tree)
        # betterproto -> reference
        try:
            m = guard("build", adapter.build, cls, mi, tree, route)
            text = guard("to_json", m.to_json)
            try:
                r = json_format.Parse(text, c.ref.cls(mi.full_name)())
                got = norm(schema, mi, snap_ref(schema, mi, r))
                if got != want:
                    out.append(("bp_json_to_ref", f"reference reads betterproto JSON as {got!r:.300}, want {want!r:.300}; json={text:.300}"))
            except json_format.ParseError as e:
                out.append(("bp_json_rejected_by_ref", f"{e}; json={text:.300}"))
        except Guarded as g:
            out.append((f"raises_{g.where}_{type(g.exc).__name__}", str(g)))
        # reference -> betterproto
        refmsg = to_ref(schema, c.ref, mi.full_name, tree)
        rtext = json_format.MessageToJson(refmsg, preserving_proto_field_name=proto_names)
        m2 = guard("from_json_ref", cls().from_json, rtext)
        got = norm(schema, mi, guard("snapshot", snap_bp, schema, mi, m2))
        if got != want:
            out.append(("ref_json_to_bp", f"betterproto reads reference JSON as {got!r:.300}, want {want!r:.300}; json={rtext:.300}"))
        # ... and through the class-level entry point (which builds the message with the - under pydantic: validating -
        # constructor)
        import json as _json

        m3 = guard("from_dict_ref_classmethod", cls.from_dict, _json.loads(rtext))
        got = norm(schema, mi, guard("snapshot_classmethod", snap_bp, schema, mi, m3))
        if got != want:
            out.append(("ref_json_to_bp_classmethod", f"betterproto (classmethod from_dict) reads reference JSON as {got!r:.300}, want {want!r:.300}; json={rtext:.300}"))

    def fails_clause(proto_names, clause, variant="default", tz=0, route="kwargs"):
        def f(mi, tree):
            name = mi.full_name.split(".")[-1]
            return any(cl == clause for cl, _ in clauses(name, tree, proto_names, variant, tz, route))

        return f

    def ev(case):
        _enum_as[0] = case.get("enum_as", "member")
        name, tree, pn = case["msg"], case["tree"], case.get("proto_names", False)
        mi = schema.msg(f"ks.{name}")
        variant, tz, route = case.get("variant", "default"), case.get("tz", 0), case.get("route", "kwargs")
        from ..values import OutOfDomain

        try:
            found = clauses(name, tree, pn, variant, tz, route)
        except OutOfDomain as e:
            return Eval(discard=str(e))
        fails = []
        for clause, detail in found:
            fails += cm.failures_for(schema, mi, tree, clause, f"msg={name} proto_names={pn} tree={tree!r} :: {detail}",
                                     fails_clause(pn, clause, variant, tz, route))
        rules = []
        for fi in mi.fields:
            if fi.name in tree:
                k = fi.kind
                for mark, lab in (("int64", "int64_as_string"), ("fixed64", "int64_as_string"), ("bytes", "base64"),
                                  ("enum", "enum_name"), ("timestamp", "rfc3339"), ("duration", "duration_s"),
                                  ("float", "float_special"), ("double", "float_special")):
                    if mark in k:
                        rules.append("rule:" + lab)
                if fi.json_name != fi.name:
                    rules.append("rule:camel_key")
        return Eval(fails, nontrivial=json_nontrivial(schema, mi, tree), labels=cm.labels_for(schema, mi, tree) + sorted(set(rules)) + [f"route:{route}", f"variant:{variant}"])

    base = cm.msg_tree_strategy(c)

    @st.composite
    def strat(draw):
        case = dict(draw(base))
        case["proto_names"] = draw(st.booleans())
        case["variant"] = draw(st.sampled_from(["default", "default", "typing.310", "pydantic"]))
        case["tz"] = draw(st.sampled_from([0, 0, 330, -480, 60, 840]))
        case["route"] = draw(st.sampled_from(["kwargs", "kwargs", "kwargs", "setattr", "lazy", "kwargs_multi", "kwargs_multi"]))
        # enum values are handed over as members of the field's enum, as bare ints, or as NAMED members of another enum class
        case["enum_as"] = draw(st.sampled_from(["member", "member", "int", "foreign"])) if case["variant"] != "pydantic" else "member"
        if case["variant"] == "pydantic" and case["route"] == "kwargs_multi":
            case["route"] = "kwargs"  # (the pydantic classes validate at most one member per group in the constructor)
        return case

    def strip_enums(schema_, mi_, tree_):
        out_ = {}
        for k, v in tree_.items():
            fi = mi_.by_name(k)
            leaf = fi.val if fi.card == "map" else fi
            if leaf.type == "enum":
                continue
            if leaf.type == "message" and leaf.wkt is None:
                sub = schema_.msg(leaf.msg)
                if fi.card == "repeated":
                    v = [strip_enums(schema_, sub, x) for x in v]
                elif fi.card == "map":
                    v = [[kk, strip_enums(schema_, sub, x)] for kk, x in v]
                else:
                    v = strip_enums(schema_, sub, v)
            out_[k] = v
        return out_

    # ---- programs: grammar-generated schemas contribute the field-NAME dimension (JSON names of unusual identifiers)
    def grammar_ev(case):
        import random

        from . import _grammar
        from .c18 import simple_tree

        with _grammar.compiled(case["ast"], tag="c05g_") as g:
            if g.reason:
                return Eval(discard=g.reason)
            fails, n, nt, seen = [], 0, 0, set()
            for vs in case["vseeds"]:
                rng = random.Random(vs)
                if not g.marks:
                    break
                for _ in range(6):
                    mk = g.marks[rng.randrange(len(g.marks))]
                    mi = g.schema.msg(g.fulls[mk])
                    cls = g.classes[mk]
                    tree = simple_tree(g.schema, mi.full_name, rng)
                    # the enum-name-prefix finding is about enum VALUE names; keep it out of the name dimension
                    tree = strip_enums(g.schema, mi, tree)
                    want = norm(g.schema, mi, tree)
                    n += 1
                    nt += 1 if any(fi.json_name != fi.name or not fi.name.islower() for fi in mi.fields if fi.name in tree) else 0
                    found = []
                    try:
                        m = guard("build", g.adapter.build, cls, mi, tree)
                        text = guard("to_json", m.to_json)
                        try:
                            r = json_format.Parse(text, g.ref.cls(mi.full_name)())
                            got = norm(g.schema, mi, snap_ref(g.schema, mi, r))
                            if got != want:
                                found.append(("bp_json_to_ref", f"reference reads {got!r:.200} want {want!r:.200}; json={text:.200}"))
                        except json_format.ParseError as e:
                            found.append(("bp_json_rejected_by_ref", f"{e}; json={text:.200}"))
                        for pn in (False, True):
                            rtext = json_format.MessageToJson(to_ref(g.schema, g.ref, mi.full_name, tree), preserving_proto_field_name=pn)
                            m2 = guard("from_json_ref", cls().from_json, rtext)
                            got = norm(g.schema, mi, guard("snapshot", snap_bp, g.schema, mi, m2))
                            if got != want:
                                found.append(("ref_json_to_bp" + ("_proto_names" if pn else ""), f"betterproto reads {got!r:.200} want {want!r:.200}; json={rtext:.200}"))
                    except Guarded as gd:
                        found.append((f"raises_{gd.where}_{type(gd.exc).__name__}", str(gd)))
                    for cl, d in found:
                        # which field names are the culprits? (single-field re-check)
                        bad = []
                        for k, v in tree.items():
                            try:
                                one = g.adapter.build(cls, mi, {k: v})
                                r1 = json_format.Parse(one.to_json(), g.ref.cls(mi.full_name)())
                                ok1 = norm(g.schema, mi, snap_ref(g.schema, mi, r1)) == norm(g.schema, mi, {k: v})
                                rt = json_format.MessageToJson(to_ref(g.schema, g.ref, mi.full_name, {k: v}))
                                ok2 = norm(g.schema, mi, snap_bp(g.schema, mi, cls().from_json(rt))) == norm(g.schema, mi, {k: v})
                                if not (ok1 and ok2):
                                    bad.append(k)
                            except Exception:  # noqa: BLE001
                                bad.append(k)
                        from .c19 import classes as name_classes

                        def names_in(fi_mi, t):
                            out_ = set()
                            for k2, v2 in t.items():
                                out_.add(k2)
                                f2 = fi_mi.by_name(k2)
                                leaf = f2.val if f2.card == "map" else f2
                                if leaf.type == "message" and leaf.wkt is None:
                                    sub = g.schema.msg(leaf.msg)
                                    subs = v2 if f2.card == "repeated" else ([x for _, x in v2] if f2.card == "map" else [v2])
                                    for x in subs:
                                        out_ |= names_in(sub, x)
                            return out_

                        all_names = names_in(mi, {k: tree[k] for k in bad}) if bad else set()
                        import re as _re

                        mkey = _re.search(r'no field named "([^"]+)"', d)
                        if mkey:
                            # the reference names the key it does not know: map it back to the proto field(s) that emit it
                            from betterproto.casing import camel_case, safe_snake_case

                            all_names = {f2.name for m2 in g.schema.messages.values() for f2 in m2.fields
                                         if camel_case(safe_snake_case(f2.name)).rstrip("_") == mkey.group(1)} or all_names
                        where = "+".join(sorted({c_ for k in all_names for c_ in name_classes(k)})) or "combo"
                        sig = f"grammar|{cl}|name:{where}"
                        if sig not in seen:
                            seen.add(sig)
                            fails.append(Failure(cl, sig, f"{mi.full_name} fields={bad} tree={tree!r:.300} :: {d}\n" + _grammar.protos_text(g.files)))
            return Eval(fails, weight=max(1, n), nontrivial_count=nt, labels=["grammar_schema"])

    from . import _grammar as _g

    # ---- fixed: one message per pooled field name; key naming in both directions against the reference
    def matrix_cases():
        yield {"matrix": "single"}

    def matrix_ev(case):
        from .. import build, gen
        from ..schema import FIELD_NAMES
        from .c19 import classes as name_classes

        names = sorted({n for pool in FIELD_NAMES.values() for n in pool} | {"sha256sum", "ipv4address", "x2y", "none", "HTTPStatusCode", "iD", "URL2go"})
        files = {"jsonnames.proto": 'syntax = "proto3";\npackage jsonnames;\n' + "\n".join(f"message N{i} {{ int32 {n} = 1; }}" for i, n in enumerate(names)) + "\n"}
        comp = gen.compile_files(files, tag="c05m_")
        try:
            if comp.rc != 0:
                return Eval(discard="plugin failed (reported by C03)")
            gen.import_all(comp)
            if comp.import_errors:
                return Eval(discard="generated package not importable (reported by C03)")
            mod = comp.modules["jsonnames"]
            gref = build.Ref(comp.fds)
            fails = []
            for i, n in enumerate(names):
                cls = getattr(mod, f"N{i}")
                R = gref.cls(f"jsonnames.N{i}")
                where = "+".join(name_classes(n))
                import dataclasses as _dc

                try:
                    pyname = [f.name for f in _dc.fields(cls)][0]
                    text = guard("to_json", cls(**{pyname: 7}).to_json)
                    try:
                        r = json_format.Parse(text, R())
                        if getattr(r, n) != 7:
                            fails.append(Failure("bp_json_to_ref", f"matrix|bp_json_to_ref|name:{where}", f"field {n!r}: json={text}"))
                    except json_format.ParseError as e:
                        fails.append(Failure("bp_json_rejected_by_ref", f"matrix|bp_json_rejected_by_ref|name:{where}", f"field {n!r}: {e}; json={text}"))
                    for pn in (False, True):
                        ref = R()
                        setattr(ref, n, 7)
                        rtext = json_format.MessageToJson(ref, preserving_proto_field_name=pn)
                        m2 = guard("from_json_ref", cls().from_json, rtext)
                        if getattr(m2, pyname) != 7:
                            fails.append(Failure("ref_json_to_bp", f"matrix|ref_json_to_bp{'_proto_names' if pn else ''}|name:{where}", f"field {n!r}: betterproto reads {m2!r} from {rtext}"))
                except Guarded as gd:
                    fails.append(Failure("raises", f"matrix|raises_{gd.where}_{type(gd.exc).__name__}|name:{where}", f"field {n!r}: {gd}"))
            return Eval(fails, weight=len(names), nontrivial_count=sum(1 for n in names if name_classes(n) != ["plain"]), labels=["name_matrix"])
        finally:
            comp.cleanup()

    from . import _seq

    return [
        Target("name_matrix_json_keys", matrix_ev, cases=matrix_cases, exhaustive=True, shard_cases=False,
               rule="one message per pooled field name (keywords, builtins, upper-case runs, digits, underscores): key naming in both directions against json_format"),
        Target("corpus_values_json_vs_reference", ev, strategy=strat(), quick=600, thorough=7000, time_quick=70),
        Target("grammar_schema_json_names", grammar_ev, strategy=_g.strategy(), quick=3, thorough=40, time_quick=60, time_thorough=900, pin_budget=10, pin_sigs=1),
        _seq.target("C05"),
        *__import__("vf.props._thr", fromlist=["target"]).target(ctx, ['from_json_names', 'from_dict:Solo', 'to_dict:Words']),
    ]
