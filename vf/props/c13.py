"""C13 Cross-package type references in generated code resolve to the right class."""
from __future__ import annotations

import itertools
import sys
import typing

from .. import gen
from ..engine import Eval, Failure, Target
from ..schema_info import Schema

LEVEL = "exploration"
QUICK_SHARDS = 8
THOROUGH_SHARDS = 16
RULE = (
    "Programs, ENUMERATED: package paths of depth 0-3 over {a, b} (15 paths) -> all 225 ordered pairs (source, "
    "target) incl. equal ones, each compiled in isolation as a schema in which the source package refers, at the six "
    "sites {field, repeated, map value, oneof member, rpc input, rpc output}, to the four kinds {top-level message, "
    "nested message, enum, nested enum} of the target package (quick: a seed-dependent quarter of the pairs; "
    "thorough: all of them, plus a third path component a_b); plus ALL-AT-ONCE schemas in which every package refers "
    "to every other one (package-level cycles through <p>_defs/<p>_refs files), with well-known types at every site. "
    "Oracle: every generated package imports; the resolved type hints of the referencing class and the request / "
    "reply types of the generated service base's __mapping__() are the IDENTICAL class objects found in the target "
    "package's module by marker (not by name); a value of the target type stored in the referencing field survives a "
    "bytes round trip; well-known types resolve to betterproto.lib.google.protobuf. Non-trivial = pair with source "
    "!= target (classes: ancestor, descendant, sibling, cousin, root, distance)."
)
ASSUMPTIONS = ["plugin output judged before ruff (identity stand-in), see C03"]
ALL_EXHAUSTIVE = False


def paths(alphabet=("a", "b"), depth=3):
    out = [""]
    for d in range(1, depth + 1):
        out += [".".join(t) for t in itertools.product(alphabet, repeat=d)]
    return out


def relation(src: str, dst: str) -> str:
    s = src.split(".") if src else []
    t = dst.split(".") if dst else []
    if s == t:
        return "same"
    if not t:
        return "to_root"
    if not s:
        return "from_root"
    if t[: len(s)] == s:
        return f"descendant{len(t) - len(s)}"
    if s[: len(t)] == t:
        return f"ancestor{len(s) - len(t)}"
    common = 0
    for x, y in zip(s, t):
        if x != y:
            break
        common += 1
    return f"cousin_up{len(s) - common}_down{len(t) - common}"


def fname(pkg: str) -> str:
    # injective (a.b and a_b are different packages in the alias-collision shapes)
    return ("p_" + pkg.replace("_", "-u").replace(".", "-d")) if pkg else "root"


STYLE = {"upper": ("Tm", "Tn", "Te", "Tne"), "lower": ("shape", "point", "kind", "mode")}
_rev_imports = [False]  # import statements in reverse order (protoc hands the plugin dependencies first, in import order)
_style = ["upper"]  # naming style of the target types: set per case (type names that do not start with a capital look like
#                     package components to anything that splits dotted names by capitalisation)


def _comp_name(pkg: str) -> str:
    """A message named after the last component of its package (a.b -> B, a_b -> AB ... as CamelCase of the component):
    its snake-cased name coincides with the alias under which a parent package imports that package."""
    last = pkg.split(".")[-1]
    return "".join(w[:1].upper() + w[1:] for w in last.split("_")) or "X"


def defs_proto(pkg: str, idx: int) -> str:
    base = 20100 + idx * 10
    tm, tn, te, tne = STYLE[_style[0]]
    head = 'syntax = "proto3";\n' + (f"package {pkg};\n" if pkg else "")
    return head + f"""
message {tm}{idx} {{
  message {tn} {{ int32 v = 1; int32 mk{base + 1} = {base + 1}; }}
  enum {tne} {{ TNE_ZERO = 0; TNE_ONE = 1; TNE_MK = {base + 3}; }}
  int32 v = 1;
  int32 mk{base} = {base};
}}
enum {te}{idx} {{ TE{idx}_ZERO = 0; TE{idx}_ONE = 1; TE{idx}_MK = {base + 2}; }}
""" + (f"message {_comp_name(pkg)} {{ int32 v = 1; int32 mk{base + 6} = {base + 6}; }}\n" if pkg else "")


def alias_names(src: str, dst: str):
    """Field names that coincide with the alias a module of package `src` may import package `dst` under
    (descendants and, from the root, any package: the relative path joined by '_', and its first component)."""
    s = src.split(".") if src else []
    t = dst.split(".") if dst else []
    if not t or t[: len(s)] != s or len(t) == len(s):
        return []
    rel = t[len(s):]
    return sorted({rel[0], "_".join(rel), rel[-1]})


def refs_proto(pkg: str, idx: int, targets, wkt: bool, sites: str = "all") -> str:
    """Message Src<idx> + service referring to every kind of every target (pkg, tidx).

    sites="rpc_in_only" / "rpc_out_only": the ONLY reference to the target package is an rpc input / output type;
    sites="alias_named_fields": additionally fields whose name is the import alias of the package they refer to."""
    if sites in ("rpc_in_only", "rpc_out_only"):
        head = 'syntax = "proto3";\n' + (f"package {pkg};\n" if pkg else "")
        imports = sorted({f'import "{fname(tp)}_defs.proto";\n' for tp, _ in targets})
        body = f"message Src{idx} {{\n  int32 mk{20100 + idx * 10 + 5} = {20100 + idx * 10 + 5};\n}}\n"
        rpcs = ""
        me = "." + (pkg + "." if pkg else "") + f"Src{idx}"
        for tp, ti in targets:
            t = "." + (tp + "." if tp else "") + f"{STYLE[_style[0]][0]}{ti}"
            a, b = (t, me) if sites == "rpc_in_only" else (me, t)
            rpcs += f"  rpc Only{ti}A ({a}) returns ({b});\n  rpc Only{ti}B (stream {a}) returns (stream {b});\n"
        return head + "".join(imports) + body + f"service Svc{idx} {{\n{rpcs}}}\n"
    head = 'syntax = "proto3";\n' + (f"package {pkg};\n" if pkg else "")
    imports = sorted({f'import "{fname(tp)}_defs.proto";\n' for tp, _ in targets}, reverse=_rev_imports[0])
    if wkt:
        imports += ['import "google/protobuf/timestamp.proto";\n', 'import "google/protobuf/duration.proto";\n',
                    'import "google/protobuf/wrappers.proto";\n', 'import "google/protobuf/empty.proto";\n',
                    'import "google/protobuf/struct.proto";\n']
    body = f"message Src{idx} {{\n  int32 mk{20100 + idx * 10 + 5} = {20100 + idx * 10 + 5};\n"
    n = 1
    oneof = "  oneof pick {\n"
    rpcs = ""
    for tp, ti in targets:
        q = "." + (tp + "." if tp else "")
        tm, tn, te, tne = STYLE[_style[0]]
        kinds = {"msg": f"{q}{tm}{ti}", "nested": f"{q}{tm}{ti}.{tn}", "enum": f"{q}{te}{ti}", "nenum": f"{q}{tm}{ti}.{tne}"}
        for k, t in kinds.items():
            body += f"  {t} f_{ti}_{k} = {n};\n"; n += 1
            body += f"  repeated {t} r_{ti}_{k} = {n};\n"; n += 1
            body += f"  map<string, {t}> m_{ti}_{k} = {n};\n"; n += 1
            oneof += f"    {t} o_{ti}_{k} = {n};\n"; n += 1
        if sites == "alias_named_fields":
            for an in alias_names(pkg, tp):
                body += f"  {kinds['msg']} {an} = {n};\n"; n += 1
        rpcs += f"  rpc Call{ti}A ({kinds['msg']}) returns ({kinds['nested']});\n"
        rpcs += f"  rpc Call{ti}B (stream {kinds['nested']}) returns (stream {kinds['msg']});\n"
        if tp and _style[0] == "upper" and _comp_name(tp) not in (f"{tm}{ti}", "Src" + str(idx)):
            rpcs += f"  rpc Named{ti} ({q}{_comp_name(tp)}) returns ({kinds['msg']});\n"
    if wkt:
        for j, t in enumerate([".google.protobuf.Timestamp", ".google.protobuf.Duration", ".google.protobuf.Empty", ".google.protobuf.Struct", ".google.protobuf.Int32Value"]):
            body += f"  {t} w_{j} = {n};\n"; n += 1
            body += f"  repeated {t} wr_{j} = {n};\n"; n += 1
            body += f"  map<string, {t}> wm_{j} = {n};\n"; n += 1
        rpcs += "  rpc Wk (.google.protobuf.Empty) returns (.google.protobuf.Struct);\n"
        # the very types the fields above use (and unwrap: datetime, timedelta, Optional[int]) as rpc types of the same package
        rpcs += "  rpc WkT (.google.protobuf.Timestamp) returns (.google.protobuf.Duration);\n"
        rpcs += "  rpc WkW (stream .google.protobuf.Int32Value) returns (stream .google.protobuf.Timestamp);\n"
    body += oneof + "  }\n}\n"
    body += f"service Svc{idx} {{\n{rpcs}}}\n"
    return head + "".join(imports) + body


class _Reached(Exception):
    pass


class _FakeChannel:
    """Stands in for a grpclib channel: the first thing a stub method does with it tells which route and which classes
    the CLIENT side uses."""

    def request(self, route, cardinality, request_type, reply_type, **kw):
        raise _Reached(route, cardinality, request_type, reply_type)


def stub_dry_calls(Stub, mapping, where: str):
    """Call every method of the generated stub up to its first use of the channel: it must get there (the names in its
    body resolve), and the classes it hands to the channel must be the very classes the server side registers."""
    import inspect

    out = []
    try:
        stub = Stub(_FakeChannel())
    except Exception as e:  # noqa: BLE001
        return [("stub_not_constructible", type(e).__name__, f"{where}: {e}"[:300])]
    seen_routes = set()
    for name, fn in vars(Stub).items():
        if name.startswith("_") or not callable(fn):
            continue
        try:
            if inspect.isasyncgenfunction(fn):
                step = getattr(stub, name)(()).__anext__()
            elif inspect.iscoroutinefunction(fn):
                step = getattr(stub, name)(())
            else:
                continue
            try:
                step.send(None)
                out.append(("stub_method_never_uses_channel", "-", f"{where}.{name}"))
            finally:
                step.close()
        except _Reached as r:
            route, _card, rq, rp = r.args
            seen_routes.add(route)
            h = mapping.get(route)
            if h is None:
                out.append(("stub_route_unknown_to_server", "-", f"{where}.{name}: {route}"))
                continue
            if rp is not h.reply_type:
                out.append(("stub_reply_type_differs_from_server", "-", f"{where}.{name}: stub {rp!r} server {h.reply_type!r}"))
            if rq is not tuple and rq is not h.request_type:
                out.append(("stub_request_type_differs_from_server", "-", f"{where}.{name}: stub {rq!r} server {h.request_type!r}"))
        except StopIteration:
            out.append(("stub_method_never_uses_channel", "-", f"{where}.{name}"))
        except Exception as e:  # noqa: BLE001
            out.append(("stub_method_raises_before_sending", type(e).__name__, f"{where}.{name}: {e}"[:300]))
    for route in mapping:
        if route not in seen_routes:
            out.append(("server_route_without_stub_method", "-", f"{where}: {route}"))
    return out


def validate(c: gen.Compiled, src_list, wkt, sites: str = "all", pydantic: bool = False):
    """src_list: [(src_pkg, src_idx, [(tgt_pkg, tgt_idx)...])] -> [(clause, where, detail)]"""
    import betterproto

    out = []
    if c.rc != 0:
        return [("plugin_failed", "-", (c.stderr.strip().splitlines() or ["?"])[-1][:300])]
    gen.import_all(c)
    for pkg, err in c.import_errors.items():
        out.append(("generated_package_not_importable", err.split(":")[0], f"package {pkg!r}: {err[:300]}"))
    if c.import_errors:
        return out
    by_marker = {}
    for pkg, mod in c.modules.items():
        msgs, enums = gen.classes_of(mod)
        for cls in msgs:
            mk = gen.marker_of_message(cls)
            if mk:
                by_marker[mk] = cls
        for cls in enums:
            mk = gen.marker_of_enum(cls)
            if mk:
                by_marker[mk] = cls
    if pydantic:
        import betterproto.lib.pydantic.google.protobuf as wk
    else:
        import betterproto.lib.google.protobuf as wk

    for sp, si, tgts in src_list:
        Src = by_marker.get(20100 + si * 10 + 5)
        if Src is None:
            out.append(("source_class_missing", "-", f"Src{si} of package {sp!r}"))
            continue
        try:
            hints = typing.get_type_hints(Src, vars(sys.modules[Src.__module__]), {})
        except Exception as e:  # noqa: BLE001
            out.append(("type_hints_unresolvable", type(e).__name__, f"Src{si} ({sp!r}): {e}"[:300]))
            continue
        if sites in ("rpc_in_only", "rpc_out_only"):
            mod = sys.modules[Src.__module__]
            Base = getattr(mod, f"Svc{si}Base", None)
            try:
                mapping = Base().__mapping__()
            except Exception as e:  # noqa: BLE001
                out.append(("service_mapping_raises", f"{sites}|{type(e).__name__}", f"{sp!r}: {e}"[:300]))
                continue
            pre = "/" + (sp + "." if sp else "") + f"Svc{si}/"
            for tp, ti in tgts:
                tcls = by_marker.get(20100 + ti * 10)
                for route in (f"Only{ti}A", f"Only{ti}B"):
                    h = mapping.get(pre + route)
                    want_rq, want_rp = (tcls, Src) if sites == "rpc_in_only" else (Src, tcls)
                    if h is None or h.request_type is not want_rq or h.reply_type is not want_rp:
                        out.append(("rpc_type_resolves_to_wrong_class", f"{sites}|{relation(sp, tp)}", f"{pre + route}: {h!r}"))
            # the stub must be constructible and its methods must exist
            Stub = getattr(mod, f"Svc{si}Stub", None)
            if Stub is None:
                out.append(("service_stub_missing", sites, f"Svc{si}Stub in {sp!r}"))
            else:
                out += [(cl, f"{sites}|{w}", d) for cl, w, d in stub_dry_calls(Stub, mapping, f"{sp!r} Svc{si}Stub")]
            continue
        for tp, ti in tgts:
            rel = relation(sp, tp)
            base = 20100 + ti * 10
            want = {"msg": by_marker.get(base), "nested": by_marker.get(base + 1), "enum": by_marker.get(base + 2), "nenum": by_marker.get(base + 3)}
            if sites == "alias_named_fields" and want["msg"] is not None:
                for an in alias_names(sp, tp):
                    got = gen._hint_shape(hints.get(an))[1][-1]
                    if got is not want["msg"]:
                        out.append(("reference_resolves_to_wrong_class", f"alias_named_field|msg|{rel}", f"{sp!r} -> {tp!r}: field {an!r} resolves to {got!r}, want {want['msg']!r}"))
                    try:
                        val = want["msg"](v=9)
                        m2 = Src().parse(bytes(Src(**{an: val})))
                        if getattr(m2, an) != val or type(getattr(m2, an)) is not want["msg"]:
                            out.append(("value_through_reference_not_preserved", f"alias_named_field|{rel}", f"{sp!r} -> {tp!r}: field {an!r}: {getattr(m2, an)!r}"))
                        d = m2.to_dict()
                        if Src().from_dict(d) != m2:
                            out.append(("value_through_reference_not_preserved", f"alias_named_field|json|{rel}", f"{sp!r} -> {tp!r}: field {an!r}: {d!r}"))
                    except Exception as e:  # noqa: BLE001
                        out.append(("round_trip_through_reference_raises", f"alias_named_field|{rel}|{type(e).__name__}", f"{sp!r} -> {tp!r}: field {an!r}: {e}"[:300]))
            for k, cls in want.items():
                if cls is None:
                    out.append(("target_class_missing", k, f"{tp!r} kind {k}"))
                    continue
                for site, nm in (("field", f"f_{ti}_{k}"), ("repeated", f"r_{ti}_{k}"), ("map", f"m_{ti}_{k}"), ("oneof", f"o_{ti}_{k}")):
                    h = hints.get(nm)
                    card, elems = gen._hint_shape(h)
                    got = elems[-1]
                    if got is not cls:
                        out.append(("reference_resolves_to_wrong_class", f"{site}|{k}|{rel}", f"{sp!r} -> {tp!r}: {nm} resolves to {got!r}, want {cls!r}"))
                # round trip through the referencing field
                try:
                    if k in ("msg", "nested"):
                        val = cls(v=7)
                    else:
                        val = cls(1)
                    m = Src(**{f"f_{ti}_{k}": val, f"r_{ti}_{k}": [val], f"m_{ti}_{k}": {"x": val}})
                    m2 = Src().parse(bytes(m))
                    for nm, getter in ((f"f_{ti}_{k}", lambda v: v), (f"r_{ti}_{k}", lambda v: v[0]), (f"m_{ti}_{k}", lambda v: v["x"])):
                        got = getter(getattr(m2, nm))
                        if got != val or type(got) is not cls:
                            out.append(("value_through_reference_not_preserved", f"{k}|{rel}", f"{sp!r} -> {tp!r}: {nm}: {got!r} ({type(got).__name__}) want {val!r}"))
                    mo = Src(**{f"o_{ti}_{k}": val})
                    got = betterproto.which_one_of(Src().parse(bytes(mo)), "pick")
                    if got[0] != f"o_{ti}_{k}" or got[1] != val or type(got[1]) is not cls:
                        out.append(("value_through_oneof_reference_not_preserved", f"{k}|{rel}", f"{sp!r} -> {tp!r}: {got!r}"))
                except Exception as e:  # noqa: BLE001
                    out.append(("round_trip_through_reference_raises", f"{k}|{rel}|{type(e).__name__}", f"{sp!r} -> {tp!r}: {e}"[:300]))
        # rpc types
        mod = sys.modules[Src.__module__]
        Base = getattr(mod, f"Svc{si}Base", None)
        if Base is None:
            out.append(("service_base_missing", "-", f"Svc{si}Base in {sp!r}"))
            continue
        try:
            mapping = Base().__mapping__()
        except Exception as e:  # noqa: BLE001
            out.append(("service_mapping_raises", type(e).__name__, f"{sp!r}: {e}"[:300]))
            continue
        pre = "/" + (sp + "." if sp else "") + f"Svc{si}/"
        Stub = getattr(mod, f"Svc{si}Stub", None)
        if Stub is None:
            out.append(("service_stub_missing", "-", f"Svc{si}Stub in {sp!r}"))
        else:
            out += stub_dry_calls(Stub, mapping, f"{sp!r} Svc{si}Stub")
        for tp, ti in tgts:
            rel = relation(sp, tp)
            base = 20100 + ti * 10
            for route, rq, rp in ((f"Call{ti}A", base, base + 1), (f"Call{ti}B", base + 1, base)):
                h = mapping.get(pre + route)
                if h is None:
                    out.append(("rpc_route_missing", "-", pre + route))
                    continue
                if h.request_type is not by_marker.get(rq):
                    out.append(("rpc_input_resolves_to_wrong_class", rel, f"{pre + route}: {h.request_type!r} want {by_marker.get(rq)!r}"))
                if h.reply_type is not by_marker.get(rp):
                    out.append(("rpc_output_resolves_to_wrong_class", rel, f"{pre + route}: {h.reply_type!r} want {by_marker.get(rp)!r}"))
        if wkt:
            from datetime import datetime, timedelta

            want = {"w_0": datetime, "w_1": timedelta, "w_2": wk.Empty, "w_3": wk.Struct, "w_4": int}
            for nm, cls in want.items():
                for pref in ("w_", "wr_", "wm_"):
                    key = nm.replace("w_", pref)
                    got = gen._hint_shape(hints.get(key))[1][-1]
                    o = getattr(got, "__origin__", None)
                    if o is typing.Union:
                        got = [a for a in got.__args__ if a is not type(None)][0]
                    if pref == "w_" and cls is int:
                        pass
                    if got is not cls:
                        out.append(("well_known_type_resolves_to_wrong_class", f"{pref}|{cls.__name__}", f"{sp!r}: {key} -> {got!r}, want {cls!r}"))
            for route, rq, rp in (("Wk", wk.Empty, wk.Struct), ("WkT", wk.Timestamp, wk.Duration), ("WkW", wk.Int32Value, wk.Timestamp)):
                h = mapping.get(pre + route)
                if h is None or h.request_type is not rq or h.reply_type is not rp:
                    out.append(("well_known_rpc_type_wrong", route, f"{pre}{route}: {h!r} want {rq.__name__} -> {rp.__name__}"))
    return out


def targets(ctx):
    P = paths()
    P3 = paths(("a", "b", "a_b"), 3) if ctx.thorough else P
    pairs = [(s, t) for s in P for t in P]
    if ctx.thorough:
        extra = [(s, t) for s in P3 for t in P3 if ("a_b" in s or "a_b" in t)]
        pairs = pairs + extra[:: max(1, len(extra) // 600)]

    def pair_cases():
        for i, (s, t) in enumerate(pairs):
            if not ctx.thorough and (i + ctx.seed) % 4 != 0:
                continue
            yield {"src": s, "dst": t}
        # the target package is referred to by nothing but an rpc input / output type; fields named like the import alias
        k = {"rpc_in_only": 0, "rpc_out_only": 0, "alias_named_fields": 0}
        for s, t in pairs:
            if s == t:
                continue
            for sites in ("rpc_in_only", "rpc_out_only") + (("alias_named_fields",) if alias_names(s, t) else ()):
                k[sites] += 1
                if ctx.thorough or (k[sites] + ctx.seed) % (3 if sites == "alias_named_fields" else 8) == 0:
                    yield {"src": s, "dst": t, "sites": sites}

    def pair_ev(case):
        s, t = case["src"], case["dst"]
        sites = case.get("sites", "all")
        files = {}
        files[f"{fname(t)}_defs.proto"] = defs_proto(t, 1)
        if s != t and sites not in ("rpc_in_only", "rpc_out_only"):
            files[f"{fname(s)}_defs.proto"] = defs_proto(s, 0)
        files[f"{fname(s)}_refs.proto"] = refs_proto(s, 0, [(t, 1)], wkt=False, sites=sites)
        c = gen.compile_files(files, tag="c13_")
        try:
            if c.protoc_rejected:
                raise RuntimeError(f"protoc rejects a C13 pair schema: {c.stderr[:300]}")
            found = validate(c, [(s, 0, [(t, 1)])], False, sites)
            rel = relation(s, t)
            tag = "pair" if sites == "all" else f"pair:{sites}"
            fails = [Failure(cl, f"{tag}|{cl}|{where}|{rel}" if rel not in where else f"{tag}|{cl}|{where}", f"{s!r} -> {t!r} ({sites}): {d}") for cl, where, d in found]
            return Eval(fails, nontrivial=s != t, labels=[f"rel:{rel}", f"sites:{sites}"])
        finally:
            c.cleanup()

    def all_cases():
        yield {"all": "depth2", "pkgs": paths(("a", "b"), 2), "wkt": True}
        yield {"all": "depth3_a", "pkgs": ["", "a", "a.a", "a.b", "a.a.a", "a.a.b", "a.b.a", "b", "b.a"], "wkt": False}
        # names that are string prefixes of each other without being path prefixes (p / pq, a.b / a.bc.d), and a
        # package-less file next to well-known types
        yield {"all": "string_prefix_shapes", "pkgs": ["p", "pq", "p.q", "a.b", "a.bc", "a.bc.d", "a.b.d", "ab"], "wkt": True}
        yield {"all": "root_with_wkt", "pkgs": ["", "a"], "wkt": True}
        # a type whose name merely *starts like* a sub-package of its own package (x.Tm0 vs package x.Tm)
        yield {"all": "type_name_extends_subpackage_name", "pkgs": ["x", "x.Tm", "x.Te", "x.Src"], "wkt": False}
        # type names that do not start with a capital (shape0.point), in a package-less file and in packages
        yield {"all": "lowercase_type_names", "pkgs": ["", "a", "a.b", "b"], "wkt": False, "style": "lower"}
        # the same references generated as pydantic dataclasses (well-known types then come from the pydantic library)
        yield {"all": "depth2_pydantic", "pkgs": ["", "a", "a.b", "b"], "wkt": True, "opts": ["pydantic_dataclasses"]}
        if ctx.thorough:
            yield {"all": "depth3_full", "pkgs": paths(), "wkt": True}
            yield {"all": "alias_shapes", "pkgs": ["", "a", "a.b", "a_b", "a.a_b", "a_b.a", "a.b.a_b", "a_b.a.b"], "wkt": False}

    _all_cases_sorted = all_cases

    def all_cases():  # noqa: F811 - every shape under two orders of the files on protoc's command line
        for case in _all_cases_sorted():
            yield case
            yield dict(case, all=case["all"] + "/files_reversed", order="reversed")

    def all_ev(case):
        _style[0] = case.get("style", "upper")
        _rev_imports[0] = case.get("order") == "reversed"
        try:
            return _all_ev(case)
        finally:
            _style[0] = "upper"
            _rev_imports[0] = False

    def _all_ev(case):
        pkgs = case["pkgs"]
        files = {}
        for i, p in enumerate(pkgs):
            files[f"{fname(p)}_defs.proto"] = defs_proto(p, i)
        src_list = []
        for i, p in enumerate(pkgs):
            tg = [(q, j) for j, q in enumerate(pkgs)]
            files[f"{fname(p)}_refs.proto"] = refs_proto(p, i, tg, wkt=case["wkt"])
            src_list.append((p, i, tg))
        c = gen.compile_files(files, opts=tuple(case.get("opts", ())), tag="c13all_", order=case.get("order"))
        try:
            if c.protoc_rejected:
                raise RuntimeError(f"protoc rejects the C13 all-at-once schema: {c.stderr[:300]}")
            found = validate(c, src_list, case["wkt"], pydantic="pydantic_dataclasses" in case.get("opts", ()))
            seen, fails = set(), []
            for cl, where, d in found:
                sig = f"all:{case['all']}|{cl}|{where}"
                if sig not in seen:
                    seen.add(sig)
                    fails.append(Failure(cl, sig, f"{case['all']}: {d}"))
            n = len(pkgs) * len(pkgs)
            return Eval(fails, weight=n, nontrivial_count=n - len(pkgs), labels=[f"all:{case['all']}"])
        finally:
            c.cleanup()

    # ---- fixed reference shapes (vf/props/_shapes.py): a field named like the import alias of its type's package, nested
    # types whose own name is a Python keyword, a foreign type called like the holder's synthetic map-entry type, import
    # public, packages that import each other - judged by marker against protoc's descriptors (the C03 validation:
    # every field's annotation resolves to the class carrying the marker of the type the descriptor names) and at run
    # time (the class the runtime decodes the field with; a value sent through the reference comes back in that class)
    REF_SHAPES = ("alias_child.proto", "alias_parent.proto", "nested_keywords.proto", "entry_store.proto", "entry_holder.proto", "pub_c.proto", "pub_b.proto", "pub_a.proto",
                  "mutual_child.proto", "mutual_parent.proto", "mutual_child2.proto", "only_enums.proto", "uses_only_enums.proto", "only_plain.proto", "only_msgref.proto")

    def shape_cases():
        for opts in ((), ("pydantic_dataclasses",)):
            for order in (None, "reversed"):
                yield {"shapes": "reference_shapes", "opts": list(opts), "order": order}
        # under pydantic the alias-named field is a known finding: probed on its own
        yield {"shapes": "probe_alias_named_field", "opts": ["pydantic_dataclasses"], "order": None}

    def shape_ev(case):
        import betterproto

        from ..schema_info import Schema
        from ..values import BPInfo
        from ._shapes import SINGLE_CONSTRUCT
        from .c03 import validate as validate_by_marker

        pyd = "pydantic_dataclasses" in case["opts"]
        names = [k for k in REF_SHAPES if not (pyd and k.startswith("alias_"))] if case["shapes"] == "reference_shapes" else [k for k in REF_SHAPES if k.startswith("alias_")]
        c = gen.compile_files({k: SINGLE_CONSTRUCT[k] for k in names}, opts=tuple(case["opts"]), tag="c13shp_", order=case.get("order"))
        try:
            if c.protoc_rejected:
                raise RuntimeError(f"protoc rejects the C13 shapes: {c.stderr[:300]}")
            found = [(cl, w, d) for cl, w, d in validate_by_marker(c) if not (pyd and cl in ("field_cardinality", "field_optional_flag") and w.startswith("oneof"))]
            n = 0
            if not c.import_errors and c.rc == 0:
                schema = Schema(c.fds)
                by_marker = {}
                for mod in c.modules.values():
                    msgs, enums = gen.classes_of(mod)
                    by_marker.update({gen.marker_of_message(x): x for x in msgs if gen.marker_of_message(x)})
                    by_marker.update({gen.marker_of_enum(x): x for x in enums if gen.marker_of_enum(x)})
                by_full = {}
                for full, mi in schema.messages.items():
                    mk = [f.number for f in mi.fields if f.number > 20000]
                    if mk and mk[0] in by_marker:
                        by_full[full] = by_marker[mk[0]]
                for full, cls in by_full.items():
                    mi = schema.msg(full)
                    try:
                        info = BPInfo.of(cls)
                    except Exception:  # noqa: BLE001 - reported by the validation above
                        continue
                    for fi in mi.fields:
                        if fi.card not in ("single", "optional", "repeated") or fi.type != "message" or fi.wkt is not None or fi.msg not in by_full:
                            continue
                        n += 1
                        want = by_full[fi.msg]
                        name = info.pyname(fi)
                        try:
                            got = cls._betterproto.cls_by_field[name]
                            if got is not want:
                                found.append(("runtime_decodes_reference_with_wrong_class", f"{fi.kind}", f"{full}.{fi.name}: {got!r}, want {want!r}"))
                                continue
                            sub = want().parse(b"\xd0\x0f\x07")  # an unknown varint record: present and distinguishable
                            val = [sub] if fi.card == "repeated" else sub
                            m2 = cls().parse(bytes(cls(**{name: val})))
                            back = getattr(m2, name)
                            back = back[0] if fi.card == "repeated" else back
                            if type(back) is not want or bytes(back) != bytes(sub):
                                found.append(("value_through_reference_not_preserved", f"{fi.kind}", f"{full}.{fi.name}: {back!r}"))
                        except Exception as e:  # noqa: BLE001
                            found.append(("round_trip_through_reference_raises", f"{fi.kind}|{type(e).__name__}", f"{full}.{fi.name}: {e}"[:300]))
            seen, fails = set(), []
            tag = ("shapes" if case["shapes"] == "reference_shapes" else case["shapes"]) + ("/pydantic" if pyd else "") + ("/files_reversed" if case.get("order") else "")
            for cl, where, d in found:
                sig = f"{tag}|{cl}|{where}"
                if sig not in seen:
                    seen.add(sig)
                    fails.append(Failure(cl, sig, d))
            return Eval(fails, weight=max(n, 1), nontrivial_count=n, labels=[tag])
        finally:
            c.cleanup()

    return [
        Target("reference_shapes", shape_ev, cases=shape_cases, exhaustive=True, shard_cases=False,
               rule="fixed shapes: alias-named fields, nested keyword-named types, foreign *Entry types, import public, mutually importing packages x {std, pydantic} x file order"),
        Target("all_packages_at_once", all_ev, cases=all_cases, exhaustive=True, rule="every package refers to every package, in one compilation"),
        Target("ordered_pairs_in_isolation", pair_ev, cases=pair_cases, exhaustive=ctx.thorough,
               rule="ordered pairs of package paths of depth 0-3 over {a,b}; quick = the quarter selected by VERIF_SEED, thorough = all 225 (+ a_b shapes)",
               time_quick=200, time_thorough=1500),
    ]
