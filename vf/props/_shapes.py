"""Fixed schema shapes shared by C03 (structure under the default options) and C18 (every option combination)."""

# one package per typing construct, each package using ONLY that construct (what a configuration must import /
# quote is decided per package, so a construct must work when it is the only one present)
def _pkg(name, body, imports=""):
    return f'syntax = "proto3";\npackage {name};\n{imports}{body}'

SINGLE_CONSTRUCT = {
    "only_map.proto": _pkg("only_map", "message M { map<string, int32> m = 1; int32 mk20001 = 20001; }\n"),
    "only_optional.proto": _pkg("only_optional", "message M { optional int32 o = 1; int32 mk20002 = 20002; }\n"),
    "only_repeated.proto": _pkg("only_repeated", "message M { repeated string r = 1; int32 mk20003 = 20003; }\n"),
    "only_wrapper.proto": _pkg("only_wrapper", "message M { google.protobuf.Int32Value w = 1; int32 mk20004 = 20004; }\n", 'import "google/protobuf/wrappers.proto";\n'),
    "only_oneof.proto": _pkg("only_oneof", "message M { oneof o { int32 a = 1; string b = 2; } int32 mk20005 = 20005; }\n"),
    "only_plain.proto": _pkg("only_plain", "message M { int32 a = 1; int32 mk20006 = 20006; }\nenum E { E_ZERO = 0; E_MK = 20007; }\n"),
    "only_msgref.proto": _pkg("only_msgref", "message M { M self_ref = 1; only_plain.M other = 2; only_plain.E e = 3; int32 mk20008 = 20008; }\n", 'import "only_plain.proto";\n'),
    "only_timestamp.proto": _pkg("only_timestamp", "message M { google.protobuf.Timestamp t = 1; google.protobuf.Duration d = 2; int32 mk20009 = 20009; }\n",
                                 'import "google/protobuf/timestamp.proto";\nimport "google/protobuf/duration.proto";\n'),
    "only_unary_service.proto": _pkg("only_unary_service", "message M { int32 a = 1; int32 mk20010 = 20010; }\nservice S { rpc U (M) returns (M); }\n"),
    "only_stream_service.proto": _pkg("only_stream_service", "message M { int32 a = 1; int32 mk20011 = 20011; }\nservice S { rpc SS (stream M) returns (stream M); rpc US (M) returns (stream M); rpc SU (stream M) returns (M); }\n"),
    "only_map_of_msg.proto": _pkg("only_map_of_msg", "message M { map<int32, M> m = 1; int32 mk20012 = 20012; }\n"),
    "only_repeated_msg.proto": _pkg("only_repeated_msg", "message M { repeated M r = 1; int32 mk20013 = 20013; }\n"),
    "only_optional_msg.proto": _pkg("only_optional_msg", "message M { optional M o = 1; int32 mk20014 = 20014; }\n"),
    # oneof shapes, one per package: groups of exactly one member (the hand-written explicit-presence idiom), one /
    # two / three such groups, next to or without a multi-member group, message / enum / wrapper members
    "oneof_solo1.proto": _pkg("oneof_solo1", "message M { oneof a { int32 x = 1; } int32 mk20015 = 20015; }\n"),
    "oneof_solo2.proto": _pkg("oneof_solo2", "message M { oneof a { int32 x = 1; } oneof b { string y = 2; } int32 mk20016 = 20016; }\n"),
    "oneof_solo3.proto": _pkg("oneof_solo3", "message M { oneof a { M x = 1; } oneof b { E y = 2; } oneof c { bytes z = 3; } int32 mk20017 = 20017; }\nenum E { E_ZERO = 0; E_MK = 20018; }\n"),
    "oneof_solo_and_multi.proto": _pkg("oneof_solo_and_multi", "message M { oneof a { int32 x = 1; } oneof b { string y = 2; bool z = 3; } int32 mk20019 = 20019; }\n"),
    "oneof_two_messages.proto": _pkg("oneof_two_messages", "message M { oneof a { int32 x = 1; } int32 mk20020 = 20020; }\nmessage N { oneof b { string y = 1; } int32 mk20021 = 20021; }\n"),
    "oneof_optional_mix.proto": _pkg("oneof_optional_mix", "message M { oneof a { int32 x = 1; } optional int32 o = 2; optional string p = 3; int32 mk20022 = 20022; }\n"),
    "oneof_wrapper_member.proto": _pkg("oneof_wrapper_member", "message M { oneof a { google.protobuf.Int32Value w = 1; google.protobuf.Timestamp t = 2; } int32 mk20023 = 20023; }\n",
                                        'import "google/protobuf/wrappers.proto";\nimport "google/protobuf/timestamp.proto";\n'),
    # fields named like the scalar type names, declared before / between / after the constructs whose annotations
    # mention those types (repeated, map, optional, wrapper)
    "builtin_last.proto": _pkg("builtin_last", "message M { repeated int32 nums = 1; map<string, int32> m = 2; optional int32 o = 3; google.protobuf.StringValue w = 4; map<string, string> labels = 5; "
                               "repeated string names = 6; optional bool ob = 7; repeated float rf = 8; optional bytes oby = 9; map<int32, bytes> mb = 10; google.protobuf.BoolValue wb = 11; "
                               "int32 int = 12; string str = 13; bool bool = 14; float float = 15; bytes bytes = 16; int32 mk20026 = 20026; }\n", 'import "google/protobuf/wrappers.proto";\n'),
    "builtin_first.proto": _pkg("builtin_first", "message M { int32 int = 12; string str = 13; bool bool = 14; float float = 15; bytes bytes = 16; repeated int32 nums = 1; map<string, int32> m = 2; "
                                "optional int32 o = 3; google.protobuf.StringValue w = 4; map<string, string> labels = 5; repeated string names = 6; optional bool ob = 7; repeated float rf = 8; "
                                "optional bytes oby = 9; map<int32, bytes> mb = 10; google.protobuf.BoolValue wb = 11; int32 mk20027 = 20027; }\n", 'import "google/protobuf/wrappers.proto";\n'),
    "builtin_middle.proto": _pkg("builtin_middle", "message M { string first = 1; string str = 2; map<string, string> labels = 3; google.protobuf.StringValue w = 4; repeated int32 nums = 5; int32 int = 6; "
                                 "optional int32 o = 7; map<int32, int32> mi = 8; google.protobuf.Int32Value wi = 9; bytes bytes = 10; repeated bytes rb = 11; int32 mk20028 = 20028; }\n", 'import "google/protobuf/wrappers.proto";\n'),
    # type names that end in "None" / look like typing constructs in optional / oneof positions
    "names_ending_in_none.proto": _pkg("names_ending_in_none", "message ResultOrNone { int32 a = 1; int32 mk20029 = 20029; }\nenum LevelNone { LN_ZERO = 0; LN_ONE = 1; LN_MK = 20030; }\n"
                                       "message M { optional ResultOrNone r = 1; optional LevelNone l = 2; oneof pick { ResultOrNone x = 3; LevelNone y = 4; } repeated LevelNone rl = 5; int32 mk20031 = 20031; }\n"),
    # two oneofs of one message whose names differ only in casing / underscores
    "oneof_colliding_names.proto": _pkg("oneof_colliding_names", "message M { oneof kind { int32 a = 1; } oneof Kind { string b = 2; } oneof key_v1 { int32 c = 3; int32 c2 = 5; } "
                                        "oneof keyV1 { string d = 4; bool d2 = 6; } oneof from_hop { int32 e = 7; } oneof fromHop { int32 f = 8; } int32 mk20032 = 20032; }\n"),
    # a package that holds nothing but enums, used from another package
    "only_enums.proto": _pkg("only_enums", "enum E { E_ZERO = 0; E_ONE = 1; E_NEG = -2; E_MK = 20033; }\nenum F { F_ZERO = 0; F_MK = 20034; }\n"),
    "uses_only_enums.proto": _pkg("uses_only_enums", "message M { only_enums.E e = 1; repeated only_enums.E r = 2; optional only_enums.F o = 3; map<string, only_enums.E> m = 4; "
                                  "oneof pick { only_enums.E pe = 5; int32 pi = 6; } int32 mk20035 = 20035; }\n", 'import "only_enums.proto";\n'),
    # a type reached only through `import public` of an imported file; the re-exporting package is a dotted prefix of the type's
    "pub_c.proto": _pkg("geo.shapes", "message Point { int32 x = 1; int32 mk20036 = 20036; }\nenum Unit { UNIT_ZERO = 0; UNIT_MK = 20037; }\n"),
    "pub_b.proto": _pkg("geo", "message Facade { int32 v = 1; int32 mk20038 = 20038; }\n", 'import public "pub_c.proto";\n'),
    "pub_a.proto": _pkg("app", "message Route { geo.shapes.Point p = 1; repeated geo.shapes.Point r = 2; map<string, geo.shapes.Point> m = 3; geo.shapes.Unit u = 4; geo.Facade f = 5; int32 mk20039 = 20039; }\n"
                        "service Nav { rpc Go (geo.shapes.Point) returns (geo.Facade); }\n", 'import "pub_b.proto";\n'),
    # round 8: a field named like the import alias of the child package its type comes from; nested types whose own name
    # is a Python keyword once pascal-cased; a foreign type called like the holder's synthetic map-entry type; two maps
    # named x and <prefix>_x; Timestamp / Duration ONLY as map values; deprecated fields / values / messages; aliases
    # with the earlier name deprecated; enum value names with leading / trailing underscores
    "alias_child.proto": _pkg("shopx.item", "message Item { int32 a = 1; int32 mk20050 = 20050; }\nenum Kind { KIND_ZERO = 0; KIND_MK = 20051; }\n"),
    "alias_parent.proto": _pkg("shopx", "message Order { int32 id = 1; shopx.item.Item item = 2; repeated shopx.item.Item items = 3; shopx.item.Kind kind = 4; int32 mk20052 = 20052; }\n"
                               "message Cart { map<string, shopx.item.Item> item = 1; int32 mk20053 = 20053; }\n", 'import "alias_child.proto";\n'),
    "nested_keywords.proto": _pkg("nested_keywords", "message Outer { message None { int32 a = 1; int32 mk20054 = 20054; } enum True { TRUE_ZERO = 0; TRUE_MK = 20055; } message false { int32 b = 1; int32 mk20056 = 20056; } "
                                  "None n = 1; True t = 2; false f = 3; repeated None rn = 4; map<string, false> mf = 5; oneof pick { None pn = 6; True pt = 7; } int32 mk20057 = 20057; }\n"
                                  "message User { Outer.None n = 1; Outer.True t = 2; optional Outer.false f = 3; int32 mk20058 = 20058; }\nservice KW { rpc Get (Outer.None) returns (Outer.false); }\n"),
    "entry_store.proto": _pkg("entry_store", "message LogEntry { string text = 1; int32 mk20059 = 20059; }\nmessage AttrsEntry { int32 k = 1; int32 mk20060 = 20060; }\n"),
    "entry_holder.proto": _pkg("entry_holder", "message Journal { map<string, int64> log = 1; repeated entry_store.LogEntry recent = 2; entry_store.LogEntry last = 3; map<int32, bool> attrs = 4; "
                               "oneof pick { entry_store.AttrsEntry chosen = 5; int32 none_chosen = 6; } int32 mk20061 = 20061; }\n", 'import "entry_store.proto";\n'),
    "map_prefix_names.proto": _pkg("map_prefix_names", "message Stats { map<string, sint64> delta = 1; map<string, uint64> total_delta = 2; map<int32, string> x = 3; map<uint64, bytes> big_x = 4; "
                                   "map<string, fixed32> count = 5; map<string, double> re_count = 6; int32 mk20062 = 20062; }\n"),
    "times_only_in_maps.proto": _pkg("times_only_in_maps", "message M { map<string, google.protobuf.Timestamp> at = 1; int32 mk20063 = 20063; }\n", 'import "google/protobuf/timestamp.proto";\n'),
    "spans_only_in_maps.proto": _pkg("spans_only_in_maps", "message M { map<int32, google.protobuf.Duration> took = 1; int32 mk20064 = 20064; }\n", 'import "google/protobuf/duration.proto";\n'),
    "deprecated_parts.proto": _pkg("deprecated_parts", "message M { int32 a = 1 [deprecated = true]; string b = 2; repeated int32 c = 3 [deprecated = true]; M d = 4 [deprecated = true]; "
                                   "oneof pick { int32 e = 5 [deprecated = true]; string f = 6; } optional int32 g = 7 [deprecated = true]; map<string, int32> h = 8 [deprecated = true]; int32 mk20065 = 20065; }\n"
                                   "message Old { option deprecated = true; int32 a = 1; int32 mk20066 = 20066; }\n"
                                   "enum State { option allow_alias = true; STATE_ZERO = 0; STATE_STARTED = 1 [deprecated = true]; STATE_RUNNING = 1; STATE_DONE = 2; STATE_FINISHED = 2 [deprecated = true]; STATE_MK = 20067; }\n"
                                   "enum Edge { _UNKNOWN = 0; RESERVED_ = 1; _BOTH_ = 2; EDGE_MK = 20068; }\n"
                                   "service Dep { rpc Gone (M) returns (Old) { option deprecated = true; } }\n"),
    # two files of one package on both sides of a file of its parent package (the .proto import graph is acyclic, the
    # generated Python packages import each other)
    "mutual_child.proto": _pkg("rtop.sub", "message Leaf { int32 a = 1; int32 mk20069 = 20069; }\n"),
    "mutual_parent.proto": _pkg("rtop", "message Top { rtop.sub.Leaf leaf = 1; int32 mk20070 = 20070; }\n", 'import "mutual_child.proto";\n'),
    "mutual_child2.proto": _pkg("rtop.sub", "message Back { rtop.Top top = 1; Leaf leaf = 2; int32 mk20071 = 20071; }\n", 'import "mutual_parent.proto";\nimport "mutual_child.proto";\n'),
    "oneof_nested_msg.proto": _pkg("oneof_nested_msg", "message M { message In { oneof a { int32 x = 1; } oneof b { int32 y = 2; } int32 mk20024 = 20024; } In in_ = 1; int32 mk20025 = 20025; }\n"),
}


# a field named like the import alias of the child package its type comes from: fine under the default options (C03, C13),
# a known finding under pydantic_dataclasses (pydantic resolves the quoted annotation "item.Item" with the class namespace
# first, where item is the field) - C13 / C18 probe it on its own
ALIAS_PROBE = {k: SINGLE_CONSTRUCT[k] for k in ("alias_child.proto", "alias_parent.proto")}
SINGLE_CONSTRUCT_NO_ALIAS = {k: v for k, v in SINGLE_CONSTRUCT.items() if k not in ALIAS_PROBE}
