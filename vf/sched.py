"""Controlled-schedule asyncio event loop: the harness owns the ready queue and the clock.

`ControlledLoop._run_once` runs exactly ONE ready callback, chosen by an external chooser
(`chooser(n) -> index`), so a schedule is a sequence of choices.  Time is virtual: timers only
fire when nothing is ready (then the clock jumps to the earliest timer).  When nothing is
ready and no timer is pending the loop raises `Deadlock` (quiescence with a pending main task).
No real I/O is performed; no wall clock is read.
"""
from __future__ import annotations

import asyncio
import heapq
from typing import Callable, List, Optional


class Deadlock(Exception):
    pass


class StepLimit(Exception):
    pass


class ControlledLoop(asyncio.SelectorEventLoop):
    def __init__(self, chooser: Callable[[int], int], max_steps: int = 200000, max_virtual_time: float = float("inf")):
        super().__init__()
        self._vt = 0.0
        self.max_virtual_time = max_virtual_time
        self.chooser = chooser
        self.steps = 0
        self.max_steps = max_steps

    def time(self) -> float:
        return self._vt

    def _run_once(self) -> None:
        ready = self._ready
        while self._scheduled and self._scheduled[0]._cancelled:
            h = heapq.heappop(self._scheduled)
            h._scheduled = False
        live = [i for i, h in enumerate(ready) if not h._cancelled]
        if not live:
            ready.clear()
            if self._scheduled:
                h = heapq.heappop(self._scheduled)
                h._scheduled = False
                self._vt = max(self._vt, h._when)
                if self._vt > self.max_virtual_time:
                    # only periodic timers keep the loop alive: whoever is still waiting will wait forever
                    raise Deadlock("virtual time limit")
                ready.append(h)
                live = [0]
            else:
                raise Deadlock()
        self.steps += 1
        if self.steps > self.max_steps:
            raise StepLimit()
        k = self.chooser(len(live)) if len(live) > 1 else 0
        idx = live[k % len(live)]
        h = ready[idx]
        del ready[idx]
        h._run()


class PathChooser:
    """Follows a prefix of choices, then always 0; records the branching factor at every choice point."""

    def __init__(self, prefix: List[int]):
        self.prefix = prefix
        self.pos = 0
        self.taken: List[int] = []
        self.widths: List[int] = []

    def __call__(self, n: int) -> int:
        c = self.prefix[self.pos] if self.pos < len(self.prefix) else 0
        self.pos += 1
        c %= n
        self.taken.append(c)
        self.widths.append(n)
        return c


def next_path(taken: List[int], widths: List[int]) -> Optional[List[int]]:
    """Depth-first successor of a fully explored path, or None when the tree is exhausted."""
    i = len(taken) - 1
    while i >= 0:
        if taken[i] + 1 < widths[i]:
            return taken[:i] + [taken[i] + 1]
        i -= 1
    return None


def run_controlled(main_factory, chooser, max_steps: int = 200000, max_virtual_time: float = float("inf")):
    """Run `await main_factory()` on a fresh controlled loop. Returns (result, loop); raises Deadlock/StepLimit."""
    loop = ControlledLoop(chooser, max_steps=max_steps, max_virtual_time=max_virtual_time)
    try:
        asyncio.set_event_loop(loop)
        return loop.run_until_complete(main_factory()), loop
    finally:
        try:
            # cancel whatever is left so that no task outlives the case
            for t in asyncio.all_tasks(loop):
                t.cancel()
            loop.chooser = lambda n: 0
            for _ in range(2000):
                if not loop._ready and not loop._scheduled:
                    break
                try:
                    loop._run_once()
                except (Deadlock, StepLimit):
                    break
                except BaseException:
                    pass
        finally:
            asyncio.set_event_loop(None)
            loop.close()
