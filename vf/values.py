"""Value trees: strategies, adapters to betterproto / reference messages, snapshots.

A *value tree* is a neutral description of one message value, driven by protoc's
descriptor (vf.schema_info), never by betterproto's own metadata:

  message  -> dict {field name: value}; an absent key = unset
  scalars  -> int / float / bool / str / bytes ; enum -> int number
  Timestamp / Duration -> int microseconds (since epoch / signed span)
  wrapper  -> the wrapped scalar
  repeated -> list ; map -> list of [key, value] pairs with distinct keys
"""
from __future__ import annotations

import dataclasses
import json
import math
import struct
import sys
import typing
from datetime import datetime, timedelta, timezone
from typing import Any, Dict, List, Optional

from hypothesis import strategies as st

from .schema_info import FI, INT_RANGES, MI, Schema

EPOCH = datetime(1970, 1, 1, tzinfo=timezone.utc)
TS_MIN_US = -62135596800 * 10**6  # 0001-01-01T00:00:00Z
TS_MAX_US = 253402300799 * 10**6 + 999999  # 9999-12-31T23:59:59.999999Z
DUR_MAX_US = 315576000000 * 10**6

# --------------------------------------------------------------------------- strategies


def _int_boundaries(lo: int, hi: int) -> List[int]:
    cands = {0, 1, -1, 2, -2, lo, hi, lo + 1, hi - 1}
    for k in (7, 14, 21, 28, 31, 32, 35, 42, 49, 53, 56, 63, 64):
        for d in (-1, 0, 1):
            cands.add((1 << k) + d)
            cands.add(-(1 << k) + d)
    return sorted(c for c in cands if lo <= c <= hi)


def _zigzag_boundaries(lo: int, hi: int) -> List[int]:
    """sint32 / sint64: the values whose zig-zag form sits at a 7k-bit boundary (-64, 64, -8192, ...): where the
    encoded length changes for these two types."""
    cands = set()
    for k in range(1, 10):
        for d in (-2, -1, 0, 1):
            z = (1 << (7 * k)) + d
            cands.add((z >> 1) ^ -(z & 1))
    return sorted(c for c in cands if lo <= c <= hi)


def int_strategy(t: str):
    lo, hi = INT_RANGES[t]
    parts = [
        st.sampled_from(_int_boundaries(lo, hi) + (_zigzag_boundaries(lo, hi) * 2 if t.startswith("sint") else [])),
        st.integers(lo, hi),
        st.integers(max(lo, -300), min(hi, 300)),
        # the extreme quarters of the range, uniformly (Hypothesis's own integers() favours small magnitudes): values
        # that need the top bit(s) of the type - where sign / width confusions show
        st.integers(hi - (hi - lo) // 4, hi),
    ]
    if lo < 0:
        parts.append(st.integers(lo, lo + (hi - lo) // 4))
    return st.one_of(*parts)


_TEXT_SPECIAL = ["\ufeffbom first", "\ufeff", "mid\ufeffdle", "", "\x00", "a", "\U0001F600", "é", "￿", "a\x00b", " ", "\U0010ffff",
                 # texts that read like JSON literals / numbers (they are map keys and string values like any other)
                 "true", "false", "null", "NaN", "Infinity", "-Infinity", "0", "1", "-1", "True", "None"]


def text_strategy():
    return st.one_of(st.sampled_from(_TEXT_SPECIAL), st.text(max_size=12))


def bytes_strategy():
    return st.one_of(st.sampled_from([b"", b"\x00", b"\xff", b"\x80\x01"]), st.binary(max_size=12))


def _nan_variants(width: int):
    """NaNs with a sign bit and with payload bits (as Python floats): what a float32 / float64 field must carry over."""
    out = []
    if width == 32:
        for hx in ("0000c0ff", "0100c07f", "ffffff7f", "0100807f", "5555d5ff"):
            out.append(struct.unpack("<f", bytes.fromhex(hx))[0])
    else:
        for hx in ("000000000000f8ff", "010000000000f87f", "ffffffffffffff7f", "010000000000f07f", "555555555555fdff"):
            out.append(struct.unpack("<d", bytes.fromhex(hx))[0])
    return out


def float_strategy(t: str):
    if t == "float":
        return st.one_of(
            st.sampled_from([0.0, -0.0, 1.0, -1.5, math.inf, -math.inf, math.nan, 1.401298464324817e-45, 3.4028234663852886e38, 0.10000000149011612]),
            st.floats(width=32),
            st.sampled_from([math.inf, -math.inf, math.nan, -0.0] + _nan_variants(32)),
            # Python ints where a float is expected (m.ratio = 1): exactly representable ones
            st.sampled_from([1, -1, 2, 7, 100, 2**24, -(2**24), 3]),
        )
    return st.one_of(
        st.sampled_from([0.0, -0.0, 1.0, -1.5, math.inf, -math.inf, math.nan, 5e-324, 1.7976931348623157e308, 0.1]),
        st.floats(),
        st.sampled_from([math.inf, -math.inf, math.nan, -0.0] + _nan_variants(64)),
        st.sampled_from([1, -1, 2, 7, 100, 2**53, -(2**53), 3]),
    )


def enum_strategy(schema: Schema, full_name: str):
    nums = schema.enums[full_name].numbers
    return st.one_of(
        st.sampled_from(nums),
        st.sampled_from([-1, -2, -(2**31), 2**31 - 1, 7, 12345]),
        st.integers(-(2**31), 2**31 - 1),
    )


def _frac_shapes(lo_s: int, hi_s: int):
    """Whole seconds plus a fraction of a chosen *shape*: whole milliseconds (incl. < 100 ms, i.e. leading
    zeros in the 3-digit form), whole microseconds with leading zeros, 999999, ..."""
    frac = st.one_of(
        st.sampled_from([0, 1, 5, 50, 999, 1000, 5000, 7000, 50_000, 99_000, 100_000, 500_000, 999_000, 999_999, 100, 10, 1001, 10_000]),
        st.integers(0, 99).map(lambda ms: ms * 1000),
        st.integers(0, 999).map(lambda ms: ms * 1000),
        st.integers(0, 999_999),
    )
    return st.tuples(st.integers(lo_s, hi_s), frac)


def ts_us_strategy():
    specials = [0, 1, -1, 999999, 10**6, -(10**6), -(10**6) - 1, -1500000, 1500000, TS_MIN_US, TS_MAX_US,
                TS_MIN_US + 1, TS_MAX_US - 1, 2**53, 2**53 + 1, -(2**53) - 1, 1_000_000_000_123_456,
                1_700_000_000_000_001, 86400 * 10**6, -86400 * 10**6 + 1, 5000, 1_600_000_000_007_000]
    shaped = _frac_shapes(TS_MIN_US // 10**6, TS_MAX_US // 10**6).map(lambda t: t[0] * 10**6 + t[1])
    near = _frac_shapes(-(10**7), 10**7).map(lambda t: t[0] * 10**6 + t[1])
    return st.one_of(st.sampled_from(specials), st.integers(TS_MIN_US, TS_MAX_US), shaped, near,
                     st.integers(-(10**13), 10**13))


def dur_us_strategy():
    specials = [0, 1, -1, 999999, -999999, 10**6, -(10**6), 1500000, -1500000, -500000, 500000, DUR_MAX_US,
                -DUR_MAX_US, DUR_MAX_US - 1, -DUR_MAX_US + 1, 2**53 + 1, -(2**53) - 1, 2**53 + 3,
                9007199254740993, -9007199254740993, 10**15 + 1, -(10**15) - 1, 5000, -7000, -1_050_000]
    shaped = st.tuples(_frac_shapes(0, DUR_MAX_US // 10**6 - 1), st.sampled_from([1, -1])).map(
        lambda t: t[1] * (t[0][0] * 10**6 + t[0][1]))
    near = st.tuples(_frac_shapes(0, 10**5), st.sampled_from([1, -1])).map(lambda t: t[1] * (t[0][0] * 10**6 + t[0][1]))
    return st.one_of(st.sampled_from(specials), st.integers(-DUR_MAX_US, DUR_MAX_US), shaped, near,
                     st.integers(-(10**9), 10**9))


def scalar_strategy(schema: Schema, t: str, enum: Optional[str] = None):
    if t in INT_RANGES:
        return int_strategy(t)
    if t in ("float", "double"):
        return float_strategy(t)
    if t == "bool":
        return st.booleans()
    if t == "string":
        return text_strategy()
    if t == "bytes":
        return bytes_strategy()
    if t == "enum":
        return enum_strategy(schema, enum)
    raise NotImplementedError(t)


class TreeStrategies:
    """Hypothesis strategies for value trees of the messages of one Schema."""

    def __init__(self, schema: Schema, max_depth: int = 2, max_fields: int = 6, max_items: int = 3):
        self.schema = schema
        self.max_depth = max_depth
        self.max_fields = max_fields
        self.max_items = max_items
        self._cache: Dict[tuple, Any] = {}

    def single(self, fi: FI, depth: int):
        """Strategy for one element value of field fi (ignoring repeated/map wrapping)."""
        if fi.wkt == "timestamp":
            return ts_us_strategy()
        if fi.wkt == "duration":
            return dur_us_strategy()
        if fi.wkt == "wrapper":
            return scalar_strategy(self.schema, fi.wraps)
        if fi.type == "message":
            return self.message(fi.msg, depth - 1)
        return scalar_strategy(self.schema, fi.type, fi.enum)

    def field(self, fi: FI, depth: int):
        if fi.card == "repeated":
            short = st.lists(self.single(fi, depth), max_size=self.max_items)
            if fi.type == "message" or self.max_items < 3:
                return short
            # now and then a long list of scalars (counts around 64 / 128: buffer-size and bulk-path thresholds)
            return st.one_of(*([short] * 14), st.lists(self.single(fi, depth), min_size=60, max_size=135))
        if fi.card == "map":
            return st.lists(
                st.tuples(self.single(fi.key, depth), self.single(fi.val, depth)).map(list),
                max_size=self.max_items,
                unique_by=lambda kv: _keyid(kv[0]),
            )
        return self.single(fi, depth)

    def message(self, full_name: str, depth: Optional[int] = None):
        if depth is None:
            depth = self.max_depth
        key = (full_name, depth)
        if key in self._cache:
            return self._cache[key]
        mi = self.schema.msg(full_name)
        if depth < 0 or not mi.fields:
            strat = st.just({})
        else:
            fields = mi.fields
            if depth == 0:
                # at the depth limit sub-messages may only be absent or present-but-empty
                pass
            idx = st.lists(st.integers(0, len(fields) - 1), max_size=min(self.max_fields, len(fields)), unique=True)

            @st.composite
            def build(draw, fields=fields, depth=depth, mi=mi):
                chosen = draw(idx)
                tree: Dict[str, Any] = {}
                groups: Dict[str, str] = {}
                for i in chosen:
                    fi = fields[i]
                    if fi.oneof:
                        prev = groups.get(fi.oneof)
                        if prev is not None:
                            tree.pop(prev, None)
                        groups[fi.oneof] = fi.name
                    tree[fi.name] = draw(self.field(fi, depth))
                return tree

            strat = build()
        self._cache[key] = strat
        return strat


def _keyid(k):
    return (type(k).__name__, k)


# --------------------------------------------------------------------------- normal form


def f32(x: float) -> float:
    if math.isnan(x) or math.isinf(x):
        return x
    try:
        return struct.unpack("<f", struct.pack("<f", x))[0]
    except OverflowError:
        return math.inf if x > 0 else -math.inf


def _bad(v):
    return ("badtype", type(v).__name__, repr(v)[:40])


def _norm_scalar(t: str, v):
    """Normal form of a scalar; a value of the wrong Python type becomes a ('badtype', ...) marker
    (it then simply compares unequal - the oracle never crashes on what the code under test returns)."""
    if isinstance(v, tuple) and v and v[0] == "badtype":
        return v
    if t in ("float", "double"):
        if isinstance(v, bool) or not isinstance(v, (int, float)):
            return _bad(v)
        v = float(v)
        if t == "float":
            v = f32(v)
        if math.isnan(v):
            return "NaN"
        if v == 0:
            # the sign of zero is data wherever a zero is transmitted at all (repeated / map / optional / oneof /
            # wrapper); in an implicit-presence position both zeros are "unset" (norm drops them via _is_default)
            return "-0.0" if math.copysign(1.0, v) < 0 else 0.0
        return v
    if t == "bool":
        return v if isinstance(v, bool) else _bad(v)
    if t == "enum" or t in INT_RANGES:
        if isinstance(v, bool) or not isinstance(v, int):
            return _bad(v)
        return int(v)
    if t == "bytes":
        return bytes(v) if isinstance(v, (bytes, bytearray)) else _bad(v)
    if t == "string":
        return v if isinstance(v, str) else _bad(v)
    return v


def _is_default(t: str, nv) -> bool:
    if isinstance(nv, tuple):
        return False
    if t in ("float", "double"):
        return nv == "-0.0" or (nv == 0.0 and nv != "NaN")
    if t == "bool":
        return nv is False
    if t == "string":
        return nv == ""
    if t == "bytes":
        return nv == b""
    return nv == 0


def norm_single(schema: Schema, fi: FI, v):
    if fi.wkt in ("timestamp", "duration"):
        return int(v) if isinstance(v, int) and not isinstance(v, bool) else (v if isinstance(v, tuple) else _bad(v))
    if fi.wkt == "wrapper":
        nv = _norm_scalar(fi.wraps, v)
        return 0.0 if nv == "-0.0" else nv  # the wrapper's own `value` field has implicit presence
    if fi.type == "message":
        return norm(schema, schema.msg(fi.msg), v) if isinstance(v, dict) else _bad(v)
    return _norm_scalar(fi.type, v)


def norm(schema: Schema, mi: MI, tree: Dict[str, Any]) -> Dict[str, Any]:
    """Canonical comparable form: what a conforming proto3 implementation can observe.

    * implicit-presence scalars at their default are dropped (same as unset);
    * a plain singular Timestamp/Duration at zero is dropped (betterproto exposes these
      as datetime/timedelta, whose presence no public observer reports);
    * float fields are rounded to float32, NaN becomes "NaN", -0.0 becomes "-0.0" (dropped like 0.0 where implicit);
    * maps become dicts, empty containers are dropped.
    """
    out: Dict[str, Any] = {}
    for fi in mi.fields:
        if fi.name not in tree:
            continue
        v = tree[fi.name]
        if isinstance(v, tuple) and v and v[0] == "badtype":
            out[fi.name] = v
        elif fi.card == "repeated":
            items = [norm_single(schema, fi, x) for x in v]
            if items:
                out[fi.name] = items
        elif fi.card == "map":
            pairs = v.items() if isinstance(v, dict) else v
            d = {_norm_scalar(fi.key.type, k): norm_single(schema, fi.val, x) for k, x in pairs}
            if d:
                out[fi.name] = d
        else:
            nv = norm_single(schema, fi, v)
            if fi.card == "single" and not fi.oneof:
                if fi.wkt in ("timestamp", "duration"):
                    if nv == 0:
                        continue
                elif fi.type != "message" and _is_default(fi.type, nv):
                    continue
            out[fi.name] = nv
    return out


def tree_diff(got, want, path="", limit=6) -> str:
    """Short description of where two (normalised) trees differ."""
    out = []

    def go(a, b, p):
        if len(out) >= limit:
            return
        if isinstance(a, dict) and isinstance(b, dict):
            for k in sorted(set(a) | set(b), key=repr):
                if k not in a:
                    out.append(f"{p}/{k}: missing, want {b[k]!r:.120}")
                elif k not in b:
                    out.append(f"{p}/{k}: unexpected {a[k]!r:.120}")
                else:
                    go(a[k], b[k], f"{p}/{k}")
        elif isinstance(a, list) and isinstance(b, list) and len(a) == len(b):
            for i, (x, y) in enumerate(zip(a, b)):
                go(x, y, f"{p}[{i}]")
        elif a != b:
            out.append(f"{p}: got {a!r:.120} want {b!r:.120}")

    go(got, want, path)
    return "; ".join(out) or "(equal)"


def canon(obj) -> Any:
    """JSON-able encoding of a tree / normal form (bytes, non-finite floats, non-str keys)."""
    if isinstance(obj, bytes):
        return {"$b": obj.hex()}
    if isinstance(obj, float):
        if math.isnan(obj):
            return {"$f": "nan"}
        if math.isinf(obj):
            return {"$f": "inf" if obj > 0 else "-inf"}
        if obj == 0 and math.copysign(1, obj) < 0:
            return {"$f": "-0"}
        return obj
    if isinstance(obj, dict):
        if all(isinstance(k, str) for k in obj):
            return {k: canon(v) for k, v in obj.items()}
        return {"$m": [[canon(k), canon(v)] for k, v in obj.items()]}
    if isinstance(obj, (list, tuple)):
        return [canon(x) for x in obj]
    return obj


def decanon(obj) -> Any:
    if isinstance(obj, dict):
        if set(obj) == {"$b"}:
            return bytes.fromhex(obj["$b"])
        if set(obj) == {"$f"}:
            return {"nan": math.nan, "inf": math.inf, "-inf": -math.inf, "-0": -0.0}[obj["$f"]]
        if set(obj) == {"$m"}:
            return {decanon(k): decanon(v) for k, v in obj["$m"]}
        return {k: decanon(v) for k, v in obj.items()}
    if isinstance(obj, list):
        return [decanon(x) for x in obj]
    return obj


def canon_json(obj) -> str:
    return json.dumps(canon(obj), sort_keys=True, ensure_ascii=True)


# --------------------------------------------------------------------------- reference adapter


def split_ts(us: int):
    s, micro = divmod(us, 10**6)
    return s, micro * 1000


def split_dur(us: int):
    sign = -1 if us < 0 else 1
    s, micro = divmod(abs(us), 10**6)
    return sign * s, sign * micro * 1000


def _ref_set_single(schema, fi: FI, target, v, setter=None):
    """Write value v of field fi into reference sub-message / scalar slot."""
    if fi.wkt == "timestamp":
        target.seconds, target.nanos = split_ts(v)
        target.SetInParent()
    elif fi.wkt == "duration":
        target.seconds, target.nanos = split_dur(v)
        target.SetInParent()
    elif fi.wkt == "wrapper":
        target.value = _ref_scalar(fi.wraps, v)
        target.SetInParent()
    else:
        fill_ref(schema, schema.msg(fi.msg), target, v)


def _ref_scalar(t: str, v):
    if t == "float":
        return f32(float(v)) if not (math.isnan(v) or math.isinf(v)) else v
    return v


def fill_ref(schema: Schema, mi: MI, msg, tree: Dict[str, Any]):
    msg.SetInParent()
    for fi in mi.fields:
        if fi.name not in tree:
            continue
        v = tree[fi.name]
        if fi.card == "repeated":
            rep = getattr(msg, fi.name)
            for x in v:
                if fi.type == "message":
                    _ref_set_single(schema, fi, rep.add(), x)
                else:
                    rep.append(_ref_scalar(fi.type, x))
        elif fi.card == "map":
            mp = getattr(msg, fi.name)
            pairs = v.items() if isinstance(v, dict) else v
            for k, x in pairs:
                if fi.val.type == "message":
                    _ref_set_single(schema, fi.val, mp[k], x)
                else:
                    mp[k] = _ref_scalar(fi.val.type, x)
        elif fi.type == "message":
            _ref_set_single(schema, fi, getattr(msg, fi.name), v)
        else:
            setattr(msg, fi.name, _ref_scalar(fi.type, v))
    return msg


def to_ref(schema: Schema, ref, full_name: str, tree):
    return fill_ref(schema, schema.msg(full_name), ref.cls(full_name)(), tree)


def _ref_snap_single(schema, fi: FI, v):
    if fi.wkt == "timestamp":
        return v.seconds * 10**6 + v.nanos // 1000 if v.nanos % 1000 == 0 else ("ns", v.seconds, v.nanos)
    if fi.wkt == "duration":
        return v.seconds * 10**6 + _trunc_div(v.nanos, 1000) if v.nanos % 1000 == 0 else ("ns", v.seconds, v.nanos)
    if fi.wkt == "wrapper":
        return v.value
    if fi.type == "message":
        return snap_ref(schema, schema.msg(fi.msg), v)
    return v


def _trunc_div(a: int, b: int) -> int:
    q = abs(a) // b
    return q if a >= 0 else -q


def snap_ref(schema: Schema, mi: MI, msg) -> Dict[str, Any]:
    """Tree of a reference message via ListFields / HasField (explicit + non-default implicit)."""
    out: Dict[str, Any] = {}
    present = {fd.name: val for fd, val in msg.ListFields()}
    for fi in mi.fields:
        if fi.name not in present:
            continue
        v = present[fi.name]
        if fi.card == "repeated":
            out[fi.name] = [_ref_snap_single(schema, fi, x) for x in v]
        elif fi.card == "map":
            out[fi.name] = {k: _ref_snap_single(schema, fi.val, v[k]) for k in v}
        else:
            out[fi.name] = _ref_snap_single(schema, fi, v)
    return out


# --------------------------------------------------------------------------- betterproto adapter


class BPInfo:
    """Public-API view of a betterproto class: dataclass fields, metadata, resolved hints."""

    _cache: Dict[type, "BPInfo"] = {}

    def __init__(self, cls):
        import betterproto

        self.cls = cls
        mod = sys.modules[cls.__module__]
        self.hints = typing.get_type_hints(cls, vars(mod), {})
        self.by_number: Dict[int, tuple] = {}
        self.fields = []
        for f in dataclasses.fields(cls):
            meta = betterproto.FieldMetadata.get(f)
            self.by_number[meta.number] = (f.name, meta)
            self.fields.append((f.name, meta))

    @classmethod
    def of(cls, c) -> "BPInfo":
        i = cls._cache.get(c)
        if i is None:
            i = cls._cache[c] = BPInfo(c)
        return i

    def pyname(self, fi: FI) -> str:
        return self.by_number[fi.number][0]

    def elem_class(self, fi: FI):
        """Python class of the (element / map value) type of field fi."""
        name = self.pyname(fi)
        h = self.hints[name]
        args = getattr(h, "__args__", None)
        origin = getattr(h, "__origin__", None)
        if fi.card == "map":
            return args[1]
        if fi.card == "repeated":
            return args[0]
        if args and (origin is typing.Union or type(h).__name__ == "UnionType"):
            return [a for a in args if a is not type(None)][0]
        return h


def us_to_datetime(us: int, offset_min: int = 0) -> datetime:
    dt = EPOCH + timedelta(microseconds=us)
    if offset_min and TS_MIN_US <= us + offset_min * 60 * 10**6 <= TS_MAX_US:
        # the offset is only applied when the local wall time stays within datetime.min .. datetime.max
        dt = dt.astimezone(timezone(timedelta(minutes=offset_min)))
    return dt


def datetime_to_us(dt: datetime) -> int:
    d = dt - EPOCH if dt.tzinfo is not None else dt.replace(tzinfo=timezone.utc) - EPOCH
    return (d.days * 86400 + d.seconds) * 10**6 + d.microseconds


def timedelta_to_us(td: timedelta) -> int:
    return (td.days * 86400 + td.seconds) * 10**6 + td.microseconds


class OutOfDomain(Exception):
    """The requested construction is not one whose outcome this property defines (counted as a discard)."""


def _nondefault_for(schema: Schema, fi: FI):
    """Some non-default tree value for a singular field."""
    if fi.wkt in ("timestamp", "duration"):
        return 1_500_000
    t = fi.wraps if fi.wkt == "wrapper" else fi.type
    if t == "message":
        sub = schema.msg(fi.msg)
        for f in sub.fields:
            if f.card == "single" and not f.oneof and f.type not in ("message",):
                return {f.name: _nondefault_for(schema, f)}
        return {}
    if t == "enum":
        return [n for n in schema.enums[fi.enum].numbers if n != 0][0] if len(schema.enums[fi.enum].numbers) > 1 else 5
    return {"string": "x7", "bytes": b"x7", "bool": True, "float": 1.5, "double": 1.5}.get(t, 7)


_FOREIGN = {}


def _foreign_member(n: int):
    """A NAMED member of some other Enum class carrying the number n (an int like any other for the field it is put in)."""
    import betterproto

    if n not in _FOREIGN:
        import types

        name = f"FOREIGN_{'M' if n < 0 else 'P'}{abs(n)}"
        cls = types.new_class(f"ForeignEnum{'M' if n < 0 else 'P'}{abs(n)}", (betterproto.Enum,), exec_body=lambda ns: ns.update({name: n, "__module__": __name__}))
        _FOREIGN[n] = cls(n)
    return _FOREIGN[n]


class BPAdapter:
    """tree -> betterproto message.

    enum_as: "member" passes Enum.try_value(n) (what decoding produces), "int" passes raw ints.
    empty_via: how a present-but-empty plain singular sub-message is obtained: "parse"
    (Sub().parse(b"") - "it was received") or "from_dict" (Sub().from_dict({})).
    """

    def __init__(self, schema: Schema, enum_as: str = "member", empty_via: str = "parse", tz_offset_min: int = 0):
        self.schema = schema
        self.enum_as = enum_as
        self.empty_via = empty_via
        self.tz = tz_offset_min

    def single(self, elem_cls, fi: FI, v, plain_position: bool):
        """Python value for one element of (descriptor) field fi whose Python element class is elem_cls."""
        if fi.wkt == "timestamp":
            return us_to_datetime(v, self.tz)
        if fi.wkt == "duration":
            return timedelta(microseconds=v)
        if fi.wkt == "wrapper":
            return v
        if fi.type == "message":
            mi = self.schema.msg(fi.msg)
            sub = self.build(elem_cls, mi, v)
            if plain_position and not _bp_sow(sub) and self.empty_via != "fresh":
                # present-but-empty: obtain a message that reports serialized_on_wire
                # (empty_via="fresh" hands the freshly constructed object over as it is: whether THAT counts as present is
                # the library's rule - a type without fields does, others do not - and only differential checks use it)
                sub = elem_cls().parse(b"") if self.empty_via == "parse" else elem_cls().from_dict({})
            return sub
        if fi.type == "enum":
            if self.enum_as == "member":
                return elem_cls.try_value(v)
            if self.enum_as == "foreign":
                return _foreign_member(v)
            return v
        return v

    def kwargs(self, cls, mi: MI, tree) -> Dict[str, Any]:
        info = BPInfo.of(cls)
        kw = {}
        for fi in mi.fields:
            if fi.name not in tree:
                continue
            v = tree[fi.name]
            name = info.pyname(fi)
            ec = info.elem_class(fi)
            if fi.card == "repeated":
                kw[name] = [self.single(ec, fi, x, False) for x in v]
            elif fi.card == "map":
                pairs = v.items() if isinstance(v, dict) else v
                kw[name] = {k: self.single(ec, fi.val, x, False) for k, x in pairs}
            else:
                kw[name] = self.single(ec, fi, v, fi.card == "single" and not fi.oneof)
        return kw

    def build(self, cls, mi: MI, tree, route: str = "kwargs"):
        if route == "lazy":
            return self.fill_lazily(cls(), mi, tree, 1)
        kw = self.kwargs(cls, mi, tree)
        if route == "kwargs_multi":
            # the constructor is also handed EARLIER-declared members of every oneof group the tree selects a member
            # of (non-default values): the later-declared member - the tree's - is the selected one
            info = BPInfo.of(cls)
            extra = {}
            for fi in mi.fields:
                if fi.oneof and fi.name not in tree:
                    later = [g for g in mi.fields if g.oneof == fi.oneof and g.name in tree and mi.fields.index(g) > mi.fields.index(fi)]
                    if later:
                        extra[info.pyname(fi)] = self.single(info.elem_class(fi), fi, _nondefault_for(self.schema, fi), False)
            m = cls(**{**extra, **kw})
            import betterproto

            for fi in mi.fields:
                if fi.oneof and fi.name in tree and betterproto.which_one_of(m, fi.oneof)[0] != info.pyname(fi):
                    raise OutOfDomain("constructor with several members of one group did not select the last declared one (C07 judges that)")
            return m
        if route == "kwargs":
            return cls(**kw)
        m = cls()
        for k, v in kw.items():
            setattr(m, k, v)
        return m

    def fill_lazily(self, m, mi: MI, tree, lazy_depth: int):
        """Route "lazy": never assign a container or a (non-empty) plain sub-message; mutate what attribute
        access lazily creates instead - m.items.append(x), m.mapping[k] = v, m.child.field = v (one level of
        lazily created sub-messages; their own sub-messages are built and assigned)."""
        info = BPInfo.of(type(m))
        for fi in mi.fields:
            if fi.name not in tree:
                continue
            v = tree[fi.name]
            name = info.pyname(fi)
            ec = info.elem_class(fi)
            if fi.card == "repeated":
                lst = getattr(m, name)
                for x in v:
                    lst.append(self.single(ec, fi, x, False))
            elif fi.card == "map":
                mp = getattr(m, name)
                for k, x in (v.items() if isinstance(v, dict) else v):
                    mp[k] = self.single(ec, fi.val, x, False)
            elif (fi.card == "single" and not fi.oneof and fi.type == "message" and fi.wkt is None and lazy_depth > 0
                  and norm(self.schema, self.schema.msg(fi.msg), v)):
                # (a sub-tree that amounts to "present but empty" cannot be produced by in-place mutation: it is assigned)
                self.fill_lazily(getattr(m, name), self.schema.msg(fi.msg), v, lazy_depth - 1)
            else:
                setattr(m, name, self.single(ec, fi, v, fi.card == "single" and not fi.oneof))
        return m


def _bp_sow(m) -> bool:
    import betterproto

    return betterproto.serialized_on_wire(m)


def _bp_snap_single(schema, info, fi: FI, v, presence: str = "sow"):
    if fi.wkt == "timestamp":
        return datetime_to_us(v) if isinstance(v, datetime) else ("badtype", type(v).__name__)
    if fi.wkt == "duration":
        return timedelta_to_us(v) if isinstance(v, timedelta) else ("badtype", type(v).__name__)
    if fi.wkt == "wrapper":
        return v
    if fi.type == "message":
        import betterproto

        return snap_bp(schema, schema.msg(fi.msg), v, presence) if isinstance(v, betterproto.Message) else _bad(v)
    return v


def snap_bp(schema: Schema, mi: MI, m, presence: str = "sow") -> Dict[str, Any]:
    """Tree of a betterproto message through public observers only.

    presence="sow": a plain sub-message is present iff serialized_on_wire reports it;
    presence="sow_or_content": ... or it encodes to something (for messages filled in place through lazily
    created members, whose presence flag is not what the round-trip properties are about)."""
    import betterproto

    info = BPInfo.of(type(m))
    out: Dict[str, Any] = {}
    selected = {g: betterproto.which_one_of(m, g)[0] for g in mi.oneofs}
    for fi in mi.fields:
        name = info.pyname(fi)
        if fi.oneof:
            if selected.get(fi.oneof) != name:
                continue
            v = getattr(m, name)
            out[fi.name] = _bp_snap_single(schema, info, fi, v, presence)
            continue
        v = getattr(m, name)
        if fi.card == "repeated":
            out[fi.name] = [_bp_snap_single(schema, info, fi, x, presence) for x in v] if isinstance(v, list) else _bad(v)
        elif fi.card == "map":
            out[fi.name] = {k: _bp_snap_single(schema, info, fi.val, x, presence) for k, x in v.items()} if isinstance(v, dict) else _bad(v)
        elif fi.card == "optional" or fi.wkt == "wrapper":
            if v is None:
                continue
            out[fi.name] = _bp_snap_single(schema, info, fi, v, presence)
        elif fi.type == "message" and fi.wkt is None:
            if not isinstance(v, betterproto.Message):
                out[fi.name] = _bad(v)
                continue
            if not betterproto.serialized_on_wire(v) and not (presence == "sow_or_content" and bytes(v) != b""):
                continue
            out[fi.name] = _bp_snap_single(schema, info, fi, v, presence)
        else:
            out[fi.name] = _bp_snap_single(schema, info, fi, v, presence)
    return out


# --------------------------------------------------------------------------- classification


def value_class(fi: FI, v) -> str:
    """Coarse class of one element value (labels + signatures)."""
    t = fi.wraps if fi.wkt == "wrapper" else fi.type
    if fi.wkt in ("timestamp", "duration"):
        if v == 0:
            return "zero"
        c = "neg" if v < 0 else "pos"
        if v % 10**6:
            c += "frac"
        if abs(v) > 2**53:
            c += "big"
        return c
    if t == "message":
        return "empty" if not v else "nonempty"
    if t == "enum":
        return "zero" if v == 0 else ("neg" if v < 0 else "pos")
    if t in INT_RANGES:
        if v == 0:
            return "zero"
        if v < 0:
            return "neg"
        return "pos64" if v >= 2**63 else ("pos" if v < 2**31 else "posbig")
    if t in ("float", "double"):
        if math.isnan(v):
            return "nan"
        if math.isinf(v):
            return "inf"
        return "zero" if v == 0 else "finite"
    if t == "bool":
        return "true" if v else "false"
    if t in ("string", "bytes"):
        return "empty" if len(v) == 0 else "nonempty"
    return "?"


def field_classes(schema: Schema, mi: MI, tree, enums=True) -> List[str]:
    """['<kind>=<value class>', ...] for every set top-level field of tree."""
    out = []
    for fi in mi.fields:
        if fi.name not in tree:
            continue
        v = tree[fi.name]
        if fi.card == "repeated":
            cls = sorted({value_class(fi, x) for x in v}) or ["none"]
        elif fi.card == "map":
            pairs = v.items() if isinstance(v, dict) else v
            cls = sorted({value_class(fi.val, x) for _, x in pairs}) or ["none"]
        else:
            cls = [value_class(fi, v)]
        if fi.type == "enum" and enums and fi.card in ("single", "optional") :
            if v not in schema.enums[fi.enum].numbers:
                cls = [cls[0] + "_undef"]
        out.append(f"{fi.kind}={'+'.join(cls)}")
    return out


def tree_depth(schema: Schema, mi: MI, tree) -> int:
    """Nesting depth of plain sub-messages actually present in tree."""
    d = 0
    for fi in mi.fields:
        if fi.name not in tree:
            continue
        sub_fi = fi.val if fi.card == "map" else fi
        if sub_fi.type != "message" or sub_fi.wkt is not None:
            continue
        v = tree[fi.name]
        if fi.card == "repeated":
            subs = list(v)
        elif fi.card == "map":
            subs = [x for _, x in (v.items() if isinstance(v, dict) else v)]
        else:
            subs = [v]
        sub_mi = schema.msg(sub_fi.msg)
        for s in subs:
            d = max(d, 1 + tree_depth(schema, sub_mi, s))
    return d


def single_field_trees(mi: MI, tree):
    """Each set top-level field alone (for root-cause localisation)."""
    for fi in mi.fields:
        if fi.name in tree:
            yield fi, {fi.name: tree[fi.name]}
