"""Grammar-based generator of proto3 schemas ("programs"): JSON-able AST, Hypothesis strategy, .proto renderer.

Validity is decided by protoc itself: a schema protoc rejects is discarded and counted, never
reported.  Every message / enum carries a *marker* (an int32 field / an enum value whose number,
>= 20000, is unique within the schema) so that generated classes can be matched to schema types
without re-implementing the plugin's naming rules.

File layout per package P: `<P>_defs.proto` (types referring only to scalars, well-known types and
types of the same file) and `<P>_refs.proto` (messages and services that may refer to the defs of
EVERY package).  refs -> defs only, so files never form an import cycle while packages do.
"""
from __future__ import annotations

import re
from typing import Any, Dict, List

from hypothesis import strategies as st

SCALARS = ["double", "float", "int32", "int64", "uint32", "uint64", "sint32", "sint64", "fixed32", "fixed64",
           "sfixed32", "sfixed64", "bool", "string", "bytes"]
KEY_TYPES = ["int32", "int64", "uint32", "uint64", "sint32", "sint64", "fixed32", "fixed64", "sfixed32", "sfixed64", "bool", "string"]
WKT = ["google.protobuf.Timestamp", "google.protobuf.Duration", "google.protobuf.Int32Value", "google.protobuf.StringValue",
       "google.protobuf.BoolValue", "google.protobuf.BytesValue", "google.protobuf.DoubleValue", "google.protobuf.UInt64Value",
       "google.protobuf.Int64Value", "google.protobuf.FloatValue", "google.protobuf.UInt32Value", "google.protobuf.Empty"]
WKT_IMPORT = {"Timestamp": "google/protobuf/timestamp.proto", "Duration": "google/protobuf/duration.proto",
              "Empty": "google/protobuf/empty.proto"}
PACKAGES = ["", "a", "b", "a.b", "a.c", "a.b.c", "b.a", "pkg_x", "a.b.c.d", "x1", "Cap", "a.Up"]

MSG_NAMES = {
    # UpStream / Bitem / b_item / c_node start like a (sub-)package component the generator also uses (a.Up, a.b, a.c)
    "conventional": ["Item", "Outer", "Request", "Reply", "Config", "Node", "Point2D", "UserInfo", "UpStream", "Bitem"],
    "upper_run": ["HTTPStatus", "URLPath", "IOError2", "DBRow"],
    "lower": ["lower", "snake_msg", "item_v2", "b_item", "c_node"],
    "underscore": ["_Lead", "Trail_", "Mid_Dle", "Dbl__Under"],
    # List / Dict / Optional are excluded by construction (known finding: they shadow the typing imports of the
    # generated module; probed separately by C03's fixed probe cases)
    "keywordish": ["None_", "Type", "Message", "Enum", "none", "Self", "Any"],
    # user-defined types that are merely NAMED like well-known types (they live in the user's package)
    "wkt_like": ["StringValue", "BoolValue", "Int32Value", "MessageValue", "MapValue", "Timestamp", "Duration", "Empty", "Struct", "Value"],
}
FIELD_NAMES = {
    "conventional": ["value", "name", "count", "user_id", "payload", "items", "flag", "amount", "created_at", "kind"],
    "keyword": ["class", "from", "import", "in", "is", "lambda", "global", "pass", "def", "return", "async", "await", "not"],
    # list / dict / datetime / timedelta are excluded by construction (known finding: a field with one of these names
    # shadows the type name used by (quoted) annotations of the same class; probed separately by C18)
    "builtin": ["str", "type", "bytes", "int", "float", "bool", "len", "id", "map", "self", "print", "object", "set", "tuple"],
    "digit_after_underscore": ["address_line_1", "ipv4_address", "v_2", "field_1_2"],
    "upper_run": ["HTTPStatus", "userID", "URL", "XMLData"],
    "letter_after_digit": ["ipv4address", "sha256sum", "x2y"],
    "underscores": ["_lead", "trail_", "a__b", "x_y_z"],
    "camel": ["fooBar", "someValue2", "aB"],
    "soft_keyword": ["match", "case"],
}
ENUM_NAMES = ["Color", "Kind", "Status", "Mode", "level", "HTTPMethod", "Type_", "EnumValue", "BytesValue", "NullValue"]
ENUM_VALUE_WORDS = ["UNKNOWN", "RED", "ON", "OFF", "A", "B", "None", "DEFAULT", "V1", "x", "lower_val", "CamelVal", "TWO_WORDS", "_MAX_", "_first_", "_1_", "real", "numerator", "name", "value"]
SERVICE_NAMES = ["Svc", "Greeter", "DataAPI", "lower_service", "HTTPService", "_3DSecure", "__2fa", "none", "Type"]
METHOD_NAMES = ["Get", "List", "DoThing", "get_item", "StreamIt", "HTTPCall", "import", "class", "Print", "Send2", "x"]


def norm_name(s: str) -> str:
    return re.sub(r"[^a-z0-9]", "", s.lower())


def _pool(d: Dict[str, List[str]]):
    return st.sampled_from([(k, n) for k, ns in d.items() for n in ns])


@st.composite
def enum_ast(draw, used_norm, marker):
    name = draw(st.sampled_from(ENUM_NAMES).filter(lambda n: norm_name(n) not in used_norm))
    used_norm.add(norm_name(name))
    n = draw(st.integers(0, 4))
    words = draw(st.lists(st.sampled_from(ENUM_VALUE_WORDS), min_size=n, max_size=n, unique=True))
    prefix = draw(st.sampled_from(["", "", re.sub(r"(?<!^)(?=[A-Z][a-z])", "_", name).upper().strip("_") + "_"]))
    numbers = [0]
    for _ in words:
        numbers.append(draw(st.one_of(st.integers(1, 6), st.sampled_from([-1, -7, 100, 2**31 - 1, -(2**31)]), st.integers(-50, 50))))
    alias = len(set(numbers)) < len(numbers)
    if not alias and words and draw(st.integers(0, 3)) == 0:
        numbers[-1] = numbers[draw(st.integers(0, len(numbers) - 2))]
        alias = True
    first = prefix + draw(st.sampled_from(["UNSPECIFIED", "ZERO", "UNKNOWN0"]))
    values = [[first, 0]] + [[prefix + w, num] for w, num in zip(words, numbers[1:])]
    values.append([f"{prefix}MK{marker}", marker])
    return {"name": name, "values": values, "alias": alias, "marker": marker}


@st.composite
def schema_ast(draw, max_packages=3, services=True, markers=True):
    counter = [20000]

    def nxt():
        counter[0] += 1
        return counter[0]

    pkgs = draw(st.lists(st.sampled_from(PACKAGES), min_size=1, max_size=max_packages, unique=True))
    files = []
    # ---- pass 1: type skeletons (names, nesting, enums) per package
    all_msgs = []  # (package, full_name, ast, in_refs)
    all_enums = []
    for pkg in pkgs:
        used = set()

        def make_msgs(n, depth, used_norm, prefix_path):
            out = []
            for _ in range(n):
                cls, name = draw(_pool(MSG_NAMES).filter(lambda t: norm_name(prefix_path + t[1]) not in used_norm and norm_name(t[1]) not in used_norm))
                used_norm.add(norm_name(prefix_path + name))
                used_norm.add(norm_name(name))
                m = {"name": name, "name_class": cls, "fields": [], "nested": [], "enums": [], "oneofs": [], "marker": nxt() if markers else None,
                     "deprecated": draw(st.integers(0, 11)) == 0,
                     "comment": draw(st.sampled_from(["", "", "a message", "multi\nline comment", 'quote " and \\ backslash', "x" * 90, 'ends with a quote "',
                                                          'has \"\"\" inside', "ends with a backslash \\", "tab\there", "Gr\u00f6\u00dfe \u2013 \u65e5\u672c\u8a9e \U0001F600"]))}
                if depth < 2 and draw(st.integers(0, 2)) == 0:
                    m["nested"] = make_msgs(draw(st.integers(1, 2)), depth + 1, used_norm, prefix_path + name)
                if draw(st.integers(0, 3)) == 0:
                    sub_used = set(used_norm)
                    m["enums"] = [draw(enum_ast(sub_used, nxt()))]
                    used_norm.add(norm_name(prefix_path + name + m["enums"][0]["name"]))
                out.append(m)
            return out

        defs_msgs = make_msgs(draw(st.integers(1, 3)), 0, used, "")
        defs_enums = [draw(enum_ast(used, nxt())) for _ in range(draw(st.integers(0, 2)))]
        refs_msgs = make_msgs(draw(st.integers(0, 2)), 0, used, "")
        files.append({"name": (pkg.replace(".", "_") or "root") + "_defs.proto", "package": pkg, "messages": defs_msgs, "enums": defs_enums, "services": [], "role": "defs"})
        files.append({"name": (pkg.replace(".", "_") or "root") + "_refs.proto", "package": pkg, "messages": refs_msgs, "enums": [], "services": [], "role": "refs"})

        def walk(ms, path, role):
            for m in ms:
                full = ".".join([p for p in [pkg] if p] + path + [m["name"]])
                all_msgs.append((pkg, full, m, role))
                for e in m["enums"]:
                    all_enums.append((pkg, full + "." + e["name"], e, role))
                walk(m["nested"], path + [m["name"]], role)

        walk(defs_msgs, [], "defs")
        walk(refs_msgs, [], "refs")
        for e in defs_enums:
            all_enums.append((pkg, ".".join([p for p in [pkg] if p] + [e["name"]]), e, "defs"))

    # ---- pass 2: fields
    def type_choices(pkg, role, file_types):
        """(kind, type string) candidates visible from a message of (pkg, role)."""
        local_m = [("msg", f) for p, f, _, r in all_msgs if p == pkg and (r == "defs" or role == "refs")]
        local_e = [("enum", f) for p, f, _, r in all_enums if p == pkg and (r == "defs" or role == "refs")]
        if role == "refs":
            cross_m = [("msg", f) for p, f, _, r in all_msgs if p != pkg and r == "defs"]
            cross_e = [("enum", f) for p, f, _, r in all_enums if p != pkg and r == "defs"]
        else:
            cross_m = cross_e = []
        return local_m, local_e, cross_m, cross_e

    for pkg, full, m, role in all_msgs:
        local_m, local_e, cross_m, cross_e = type_choices(pkg, role, None)
        n = draw(st.integers(0, 5))
        names_used = set()
        number_pool = draw(st.lists(st.one_of(st.integers(1, 15), st.sampled_from([16, 2047, 2048, 18999, 2**29 - 1]), st.integers(17, 300)),
                                    min_size=n, max_size=n, unique=True))
        oneofs = []
        if n >= 2 and draw(st.integers(0, 2)) == 0:
            oneofs = draw(st.lists(st.sampled_from(["choice", "kind_of", "payload_type", "o", "payloadKind", "Target", "_lead_group", "import", "HTTPBody"]),
                                   min_size=1, max_size=2, unique_by=norm_name))
        m["oneofs"] = oneofs
        for i in range(n):
            cls, fname = draw(_pool(FIELD_NAMES).filter(lambda t: norm_name(t[1]) not in names_used))
            names_used.add(norm_name(fname))
            cands = [st.sampled_from(SCALARS).map(lambda s: ("scalar", s)), st.sampled_from(SCALARS).map(lambda s: ("scalar", s)),
                     st.sampled_from(WKT).map(lambda s: ("wkt", s))]
            for pool in (local_m, local_e, cross_m, cross_e, cross_m):
                if pool:
                    cands.append(st.sampled_from(pool))
            kind, t = draw(st.one_of(*cands))
            label = draw(st.sampled_from(["single", "single", "optional", "repeated", "map", "oneof" if oneofs else "single"]))
            f = {"name": fname, "name_class": cls, "number": number_pool[i], "kind": kind, "type": t, "label": label,
                 "comment": draw(st.sampled_from(["", "", "", "field comment", 'say "hi"', "path C:\\dir\\", "\u00e9t\u00e9 \u0416 \u4e8c"])),
                 "deprecated": draw(st.integers(0, 7)) == 0}
            if label == "map":
                f["key"] = draw(st.sampled_from(KEY_TYPES))
                if kind == "wkt" and t.endswith("Value"):
                    # map<_, wrapper> is excluded by construction (known finding of the runtime: the synthetic entry class
                    # does not know the value is a wrapper; probed separately by C01)
                    f["kind"], f["type"] = "wkt", "google.protobuf.Timestamp"
            if label == "oneof":
                f["oneof"] = draw(st.sampled_from(oneofs))
            m["fields"].append(f)
        # recursive reference to itself / a sibling now and then
        if draw(st.integers(0, 4)) == 0:
            nm = "self_ref" if "selfref" not in names_used else "again"
            used_numbers = {f["number"] for f in m["fields"]}
            num = next(x for x in range(400, 500) if x not in used_numbers)
            m["fields"].append({"name": nm, "name_class": "conventional", "number": num, "kind": "msg", "type": full,
                                "label": draw(st.sampled_from(["single", "repeated", "map"])), "key": "string", "comment": ""})
    # ---- services (refs files)
    if services:
        for fobj in files:
            if fobj["role"] != "refs" or draw(st.integers(0, 2)) != 0:
                continue
            pkg = fobj["package"]
            msg_pool = [f for p, f, _, r in all_msgs if r == "defs" or p == pkg]
            io_pool = st.one_of(st.sampled_from(msg_pool), st.sampled_from(msg_pool),
                                st.sampled_from(["google.protobuf.Empty", "google.protobuf.Timestamp", "google.protobuf.StringValue"]))
            svcs = []
            for sname in draw(st.lists(st.sampled_from(SERVICE_NAMES), min_size=1, max_size=2, unique=True)):
                mnames = draw(st.lists(st.sampled_from(METHOD_NAMES), min_size=1, max_size=4, unique_by=norm_name))
                methods = [{"name": mn, "input": draw(io_pool), "output": draw(io_pool), "cs": draw(st.booleans()), "ss": draw(st.booleans()),
                            "comment": draw(st.sampled_from(["", "rpc comment"])), "deprecated": draw(st.integers(0, 5)) == 0} for mn in mnames]
                svcs.append({"name": sname, "methods": methods, "comment": draw(st.sampled_from(["", "service comment"]))})
            fobj["services"] = svcs
    # the order of the files on protoc's command line and of the import statements (the plugin sees the files
    # dependencies first, otherwise in command-line order)
    return {"files": files, "order": draw(st.sampled_from([None, None, "reversed"]))}


class Files(dict):
    """{file name: text} plus the command-line order gen.compile_files is to use."""

    order = None


# --------------------------------------------------------------------------- rendering


def _comment(c: str, indent: str) -> str:
    if not c:
        return ""
    return "".join(f"{indent}// {line}\n" for line in c.split("\n"))


def _render_enum(e, indent):
    s = f"{indent}enum {e['name']} {{\n"
    if e.get("alias"):
        s += f"{indent}  option allow_alias = true;\n"
    for n, v in e["values"]:
        s += f"{indent}  {n} = {v};\n"
    return s + f"{indent}}}\n"


def _field_type(f):
    t = f["type"]
    return t if f["kind"] == "scalar" else "." + t


def _render_msg(m, indent):
    s = _comment(m.get("comment", ""), indent) + f"{indent}message {m['name']} {{\n"
    ind = indent + "  "
    if m.get("deprecated"):
        s += f"{ind}option deprecated = true;\n"
    for e in m["enums"]:
        s += _render_enum(e, ind)
    for n in m["nested"]:
        s += _render_msg(n, ind)
    plain = [f for f in m["fields"] if f["label"] != "oneof"]
    for f in plain:
        s += _comment(f.get("comment", ""), ind)
        t = _field_type(f)
        opt = " [deprecated = true]" if f.get("deprecated") else ""
        if f["label"] == "map":
            s += f"{ind}map<{f['key']}, {t}> {f['name']} = {f['number']}{opt};\n"
        elif f["label"] == "repeated":
            s += f"{ind}repeated {t} {f['name']} = {f['number']}{opt};\n"
        elif f["label"] == "optional":
            s += f"{ind}optional {t} {f['name']} = {f['number']}{opt};\n"
        else:
            s += f"{ind}{t} {f['name']} = {f['number']}{opt};\n"
    for g in m["oneofs"]:
        members = [f for f in m["fields"] if f["label"] == "oneof" and f.get("oneof") == g]
        if not members:
            continue
        s += f"{ind}oneof {g} {{\n"
        for f in members:
            s += f"{ind}  {_field_type(f)} {f['name']} = {f['number']}{' [deprecated = true]' if f.get('deprecated') else ''};\n"
        s += f"{ind}}}\n"
    if m.get("marker"):
        s += f"{ind}int32 mk{m['marker']} = {m['marker']};\n"
    return s + f"{indent}}}\n"


def render(ast) -> Dict[str, str]:
    """{file name: .proto text}"""
    out = Files()
    out.order = ast.get("order")
    by_pkg_defs = {f["package"]: f["name"] for f in ast["files"] if f["role"] == "defs"}
    for f in ast["files"]:
        body = ""
        for e in f["enums"]:
            body += _render_enum(e, "")
        for m in f["messages"]:
            body += _render_msg(m, "")
        for svc in f["services"]:
            body += _comment(svc.get("comment", ""), "") + f"service {svc['name']} {{\n"
            for me in svc["methods"]:
                body += _comment(me.get("comment", ""), "  ")
                body += (f"  rpc {me['name']} ({'stream ' if me['cs'] else ''}.{me['input']}) returns ({'stream ' if me['ss'] else ''}.{me['output']})"
                         + (" { option deprecated = true; }\n" if me.get("deprecated") else ";\n"))
            body += "}\n"
        imports = set()
        for w in re.findall(r"\.google\.protobuf\.(\w+)", body):
            imports.add(WKT_IMPORT.get(w, "google/protobuf/wrappers.proto"))
        if f["role"] == "refs":
            imports.update(by_pkg_defs.values())
        head = 'syntax = "proto3";\n'
        if f["package"]:
            head += f"package {f['package']};\n"
        head += "".join(f'import "{i}";\n' for i in sorted(imports, reverse=ast.get("order") == "reversed"))
        out[f["name"]] = head + "\n" + body
    return out
