"""Neutral schema description built from protoc's FileDescriptorSet (ground truth)."""
from __future__ import annotations

from dataclasses import dataclass, field
from typing import Dict, List, Optional

from google.protobuf import descriptor_pb2 as dpb

FDP = dpb.FieldDescriptorProto

TYPE_NAMES = {
    FDP.TYPE_DOUBLE: "double",
    FDP.TYPE_FLOAT: "float",
    FDP.TYPE_INT64: "int64",
    FDP.TYPE_UINT64: "uint64",
    FDP.TYPE_INT32: "int32",
    FDP.TYPE_FIXED64: "fixed64",
    FDP.TYPE_FIXED32: "fixed32",
    FDP.TYPE_BOOL: "bool",
    FDP.TYPE_STRING: "string",
    FDP.TYPE_GROUP: "group",
    FDP.TYPE_MESSAGE: "message",
    FDP.TYPE_BYTES: "bytes",
    FDP.TYPE_UINT32: "uint32",
    FDP.TYPE_ENUM: "enum",
    FDP.TYPE_SFIXED32: "sfixed32",
    FDP.TYPE_SFIXED64: "sfixed64",
    FDP.TYPE_SINT32: "sint32",
    FDP.TYPE_SINT64: "sint64",
}

INT_RANGES = {
    "int32": (-(2**31), 2**31 - 1),
    "sint32": (-(2**31), 2**31 - 1),
    "sfixed32": (-(2**31), 2**31 - 1),
    "int64": (-(2**63), 2**63 - 1),
    "sint64": (-(2**63), 2**63 - 1),
    "sfixed64": (-(2**63), 2**63 - 1),
    "uint32": (0, 2**32 - 1),
    "fixed32": (0, 2**32 - 1),
    "uint64": (0, 2**64 - 1),
    "fixed64": (0, 2**64 - 1),
}
VARINT_TYPES = {"int32", "int64", "uint32", "uint64", "sint32", "sint64", "bool", "enum"}
FIXED32_TYPES = {"fixed32", "sfixed32", "float"}
FIXED64_TYPES = {"fixed64", "sfixed64", "double"}
LEN_TYPES = {"string", "bytes", "message"}
PACKABLE = VARINT_TYPES | FIXED32_TYPES | FIXED64_TYPES

WRAPPERS = {
    ".google.protobuf.DoubleValue": "double",
    ".google.protobuf.FloatValue": "float",
    ".google.protobuf.Int64Value": "int64",
    ".google.protobuf.UInt64Value": "uint64",
    ".google.protobuf.Int32Value": "int32",
    ".google.protobuf.UInt32Value": "uint32",
    ".google.protobuf.BoolValue": "bool",
    ".google.protobuf.StringValue": "string",
    ".google.protobuf.BytesValue": "bytes",
}


def wire_type_of(t: str) -> int:
    if t in VARINT_TYPES:
        return 0
    if t in FIXED64_TYPES:
        return 1
    if t in FIXED32_TYPES:
        return 5
    return 2


@dataclass
class FI:
    name: str
    number: int
    type: str  # scalar type name, "enum", "message"
    card: str  # single | optional | repeated | map
    oneof: Optional[str] = None  # real oneof group name
    msg: Optional[str] = None  # full name (no leading dot) of message type
    enum: Optional[str] = None  # full name of enum type
    wkt: Optional[str] = None  # "timestamp" | "duration" | "wrapper"
    wraps: Optional[str] = None  # wrapped scalar type for wrappers
    key: Optional["FI"] = None
    val: Optional["FI"] = None
    json_name: str = ""
    parent: str = ""

    @property
    def kind(self) -> str:
        """Short kind string used in labels and signatures."""
        def base(f: "FI") -> str:
            if f.wkt == "wrapper":
                return f"wrap_{f.wraps}"
            if f.wkt:
                return f.wkt
            if f.type == "enum" and f.enum:
                return f"enum({f.enum.split('.')[-1]})"
            return f.type

        if self.card == "map":
            return f"map<{base(self.key)},{base(self.val)}>"
        c = "oneof" if self.oneof else self.card
        return f"{c}:{base(self)}"

    @property
    def is_plain_message(self) -> bool:
        return self.type == "message" and self.wkt is None

    @property
    def explicit_presence(self) -> bool:
        """Field whose presence is observable in proto3 (single cardinality only)."""
        return self.card == "optional" or self.oneof is not None or (
            self.card == "single" and self.type == "message"
        )


@dataclass
class EI:
    full_name: str
    values: List[tuple]  # (name, number) in declaration order

    @property
    def numbers(self) -> List[int]:
        seen, out = set(), []
        for _, n in self.values:
            if n not in seen:
                seen.add(n)
                out.append(n)
        return out


@dataclass
class MI:
    full_name: str
    fields: List[FI] = field(default_factory=list)
    oneofs: Dict[str, List[FI]] = field(default_factory=dict)
    map_entry: bool = False

    def by_name(self, n: str) -> FI:
        for f in self.fields:
            if f.name == n:
                return f
        raise KeyError(n)

    def by_number(self, n: int) -> Optional[FI]:
        for f in self.fields:
            if f.number == n:
                return f
        return None


class Schema:
    """All messages / enums of a FileDescriptorSet, indexed by full name."""

    def __init__(self, fds):
        self.messages: Dict[str, MI] = {}
        self.enums: Dict[str, EI] = {}
        self._raw: Dict[str, dpb.DescriptorProto] = {}
        for f in fds.file:
            prefix = f.package + "." if f.package else ""
            for e in f.enum_type:
                self._add_enum(prefix, e)
            for m in f.message_type:
                self._collect(prefix, m)
        for full, raw in self._raw.items():
            self._build(full, raw)

    def _add_enum(self, prefix, e):
        self.enums[prefix + e.name] = EI(prefix + e.name, [(v.name, v.number) for v in e.value])

    def _collect(self, prefix, m):
        full = prefix + m.name
        self._raw[full] = m
        for e in m.enum_type:
            self._add_enum(full + ".", e)
        for n in m.nested_type:
            self._collect(full + ".", n)

    def _field(self, parent_full: str, raw_parent, fd) -> FI:
        t = TYPE_NAMES[fd.type]
        fi = FI(name=fd.name, number=fd.number, type=t, card="single", json_name=fd.json_name, parent=parent_full)
        if t == "message":
            fi.msg = fd.type_name.lstrip(".")
            if fd.type_name == ".google.protobuf.Timestamp":
                fi.wkt = "timestamp"
            elif fd.type_name == ".google.protobuf.Duration":
                fi.wkt = "duration"
            elif fd.type_name in WRAPPERS:
                fi.wkt = "wrapper"
                fi.wraps = WRAPPERS[fd.type_name]
        elif t == "enum":
            fi.enum = fd.type_name.lstrip(".")
        if fd.label == FDP.LABEL_REPEATED:
            fi.card = "repeated"
            if t == "message":
                entry = self._raw.get(fi.msg)
                if entry is not None and entry.options.map_entry:
                    fi.card = "map"
                    fi.key = self._field(fi.msg, entry, entry.field[0])
                    fi.val = self._field(fi.msg, entry, entry.field[1])
        elif fd.proto3_optional:
            fi.card = "optional"
        elif fd.HasField("oneof_index"):
            fi.oneof = raw_parent.oneof_decl[fd.oneof_index].name
        return fi

    def _build(self, full, raw):
        mi = MI(full, map_entry=raw.options.map_entry)
        for fd in raw.field:
            fi = self._field(full, raw, fd)
            mi.fields.append(fi)
            if fi.oneof:
                mi.oneofs.setdefault(fi.oneof, []).append(fi)
        self.messages[full] = mi

    def msg(self, full_name: str) -> MI:
        return self.messages[full_name]
