"""Deterministic interleaving of threads at line granularity: the harness owns the schedule.

Every thread runs under `sys.settrace`; on each executed line of the traced source files (the library under test) the
running thread may hand the baton to another one. Only the thread holding the baton runs, so a schedule is just the list
of (global) line counts at which the baton moves on - replayable, and enumerable for a single preemption. This is the
thread counterpart of vf/sched.py (which owns the asyncio ready queue).
"""
from __future__ import annotations

import sys
import threading
from typing import Callable, List, Optional, Sequence


class LineSched:
    def __init__(self, preempt: Sequence[int], prefixes: Sequence[str]):
        self.preempt = sorted(int(k) for k in preempt)
        self.prefixes = tuple(prefixes)
        self.step = 0
        self.pi = 0
        self.switches = 0

    def _next_alive(self, i: int) -> Optional[int]:
        n = len(self.alive)
        for d in range(1, n + 1):
            j = (i + d) % n
            if self.alive[j] and j != i:
                return j
        return None

    def _point(self, i: int) -> None:
        self.step += 1
        if self.pi < len(self.preempt) and self.step >= self.preempt[self.pi]:
            self.pi += 1
            nxt = self._next_alive(i)
            if nxt is not None:
                self.switches += 1
                self.sems[nxt].release()
                self.sems[i].acquire()

    def _tracer(self, i: int):
        def local(frame, event, arg):
            if event == "line":
                self._point(i)
            return local

        def glob(frame, event, arg):
            if event == "call" and frame.f_code.co_filename.startswith(self.prefixes):
                return local
            return None

        return glob

    def _body(self, i: int, fn: Callable[[], object]) -> None:
        self.sems[i].acquire()
        sys.settrace(self._tracer(i))
        try:
            self.results[i] = ("ok", fn())
        except BaseException as e:  # noqa: BLE001 - the outcome of the thread
            self.results[i] = ("exc", f"{type(e).__name__}: {e}")
        finally:
            sys.settrace(None)
            self.alive[i] = False
            nxt = self._next_alive(i)
            if nxt is not None:
                self.sems[nxt].release()
            else:
                self.done.set()

    def run(self, fns: List[Callable[[], object]], timeout: float = 30.0):
        """-> list of ('ok', value) | ('exc', text) per thread, or None when the threads did not finish (a thread
        suspended while holding a lock another one needs: not a verdict)."""
        n = len(fns)
        self.sems = [threading.Semaphore(0) for _ in range(n)]
        self.alive = [True] * n
        self.results = [None] * n
        self.done = threading.Event()
        threads = [threading.Thread(target=self._body, args=(i, fn), daemon=True) for i, fn in enumerate(fns)]
        for t in threads:
            t.start()
        self.sems[0].release()
        if not self.done.wait(timeout):
            return None
        return self.results
