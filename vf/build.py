"""Compile .proto files with the plugin of the tree under test; load reference classes."""
from __future__ import annotations

import importlib
import os
import subprocess
import sys
from typing import Dict, List, Optional, Sequence

from . import env


class BuildError(Exception):
    def __init__(self, msg, stdout="", stderr="", rc=None):
        super().__init__(msg)
        self.stdout, self.stderr, self.rc = stdout, stderr, rc


def run_protoc(
    proto_dir: str,
    files: Sequence[str],
    out_dir: Optional[str],
    desc_path: Optional[str] = None,
    opts: Sequence[str] = (),
    timeout: float = 900,
    extra_env: Optional[dict] = None,
) -> subprocess.CompletedProcess:
    """protoc (grpc_tools) + betterproto plugin from the tree under test (ruff = identity shim)."""
    cmd = [env.PY, "-m", "grpc_tools.protoc", f"-I{proto_dir}"]
    if out_dir is not None:
        os.makedirs(out_dir, exist_ok=True)
        cmd.append(f"--python_betterproto_out={out_dir}")
        for o in opts:
            cmd.append(f"--python_betterproto_opt={o}")
    if desc_path is not None:
        cmd += [f"--descriptor_set_out={desc_path}", "--include_imports", "--include_source_info"]
    cmd += [os.path.join(proto_dir, f) for f in files]
    return subprocess.run(
        cmd, env=env.child_env(extra_env), capture_output=True, text=True, timeout=timeout, errors="replace"
    )


def load_descriptor_set(desc_path: str):
    from google.protobuf import descriptor_pb2

    fds = descriptor_pb2.FileDescriptorSet()
    with open(desc_path, "rb") as fh:
        fds.ParseFromString(fh.read())
    return fds


class Ref:
    """Reference (google.protobuf) classes built in a private descriptor pool."""

    def __init__(self, fds):
        from google.protobuf import descriptor_pool, message_factory

        self.fds = fds
        self.pool = descriptor_pool.DescriptorPool()
        for f in fds.file:
            self.pool.Add(f)
        self._get = message_factory.GetMessageClass
        self._cache: Dict[str, type] = {}

    def cls(self, full_name: str):
        c = self._cache.get(full_name)
        if c is None:
            c = self._get(self.pool.FindMessageTypeByName(full_name))
            self._cache[full_name] = c
        return c

    def desc(self, full_name: str):
        return self.pool.FindMessageTypeByName(full_name)

    def enum(self, full_name: str):
        return self.pool.FindEnumTypeByName(full_name)


def import_generated(root: str, case_id: str, package: str = ""):
    """Import <root>/<case_id>/<package as path>/__init__.py as module case_id[.package]."""
    if root not in sys.path:
        sys.path.insert(1, root)
    init = os.path.join(root, case_id, "__init__.py")
    if not os.path.exists(init):
        open(init, "w").close()
    importlib.invalidate_caches()
    name = case_id + ("." + package if package else "")
    return importlib.import_module(name)


def purge_modules(case_id: str) -> None:
    for m in [m for m in sys.modules if m == case_id or m.startswith(case_id + ".")]:
        del sys.modules[m]


class Corpus:
    """The kitchen-sink corpus compiled with the current plugin + its reference classes."""

    def __init__(self, proto_file: str = "ks.proto", package: str = "ks", opts: Sequence[str] = ()):
        work = env.work_dir()
        case_id = "corpus_" + package + "".join("_" + o.replace(".", "") for o in opts)
        out = os.path.join(work, case_id)
        desc = os.path.join(work, case_id + ".desc")
        proto_dir = os.path.join(env.VERIF, "protos")
        cp = run_protoc(proto_dir, [proto_file], out, desc, opts)
        if cp.returncode != 0:
            raise BuildError("protoc/plugin failed on corpus", cp.stdout, cp.stderr, cp.returncode)
        self.ref = Ref(load_descriptor_set(desc))
        self.mod = import_generated(work, case_id, package)
        self.package = package
        self.source = open(os.path.join(out, *package.split("."), "__init__.py")).read()

    def bp(self, name: str):
        return getattr(self.mod, name)

    def rf(self, name: str):
        return self.ref.cls(f"{self.package}.{name}")

    def desc(self, name: str):
        return self.ref.desc(f"{self.package}.{name}")

    def message_names(self) -> List[str]:
        return [m.name for f in self.ref.fds.file if f.package == self.package for m in f.message_type]
