"""Compile generated schemas with the plugin under test, import the output, extract its structure and
compare it with protoc's own FileDescriptorSet (translation validation helpers for C03 / C13 / C18 / C11)."""
from __future__ import annotations

import dataclasses
import importlib
import itertools
import os
import shutil
import sys
import typing
from datetime import datetime, timedelta
from typing import Any, Dict, List, Optional, Tuple

from . import build, env
from .schema_info import FI, MI, Schema

_counter = itertools.count()


class Compiled:
    def __init__(self, case_id, root, out, fds, rc, stderr, packages):
        self.case_id, self.root, self.out, self.fds, self.rc, self.stderr, self.packages = case_id, root, out, fds, rc, stderr, packages
        self.modules: Dict[str, Any] = {}
        self.import_errors: Dict[str, str] = {}

    def cleanup(self):
        build.purge_modules(self.case_id)
        shutil.rmtree(os.path.join(self.root, self.case_id), ignore_errors=True)
        shutil.rmtree(os.path.join(self.root, self.case_id + "_src"), ignore_errors=True)
        try:
            os.remove(os.path.join(self.root, self.case_id + ".desc"))
        except OSError:
            pass


def compile_files(files: Dict[str, str], opts=(), tag="s", descriptor_only=False, order=None, extra_env=None) -> Compiled:
    """Write the .proto files, run protoc (+ plugin unless descriptor_only). rc != 0 with fds None = protoc rejected.
    order: the order of the files on protoc's command line - None / "sorted", "reversed", or an int (rotation of the
    sorted list); protoc hands the plugin the files dependencies first, otherwise in this order."""
    work = env.work_dir()
    case_id = f"{tag}{os.getpid()}_{next(_counter)}"
    src = os.path.join(work, case_id + "_src")
    os.makedirs(src, exist_ok=True)
    for name, text in files.items():
        p = os.path.join(src, name)
        os.makedirs(os.path.dirname(p), exist_ok=True)
        with open(p, "w", encoding="utf-8") as fh:
            fh.write(text)
    names = sorted(files)
    order = order or getattr(files, "order", None)
    if order == "reversed":
        names = names[::-1]
    elif isinstance(order, int) and names:
        k = order % len(names)
        names = names[k:] + names[:k]
    desc = os.path.join(work, case_id + ".desc")
    # 1. schema validity is protoc's decision alone (no plugin involved)
    cp = build.run_protoc(src, names, None, desc)
    if cp.returncode != 0:
        c = Compiled(case_id, work, None, None, cp.returncode, cp.stderr, [])
        c.protoc_rejected = True
        return c
    fds = build.load_descriptor_set(desc)
    packages = sorted({f.package for f in fds.file if f.name in files})
    out = os.path.join(work, case_id)
    c = Compiled(case_id, work, out, fds, 0, "", packages)
    c.protoc_rejected = False
    if descriptor_only:
        return c
    # 2. the plugin
    cp = build.run_protoc(src, names, out, None, opts, extra_env=extra_env)
    c.rc, c.stderr = cp.returncode, cp.stderr
    return c


def import_all(c: Compiled):
    """Import every generated package; errors are collected per package."""
    for pkg in c.packages:
        try:
            c.modules[pkg] = build.import_generated(c.root, c.case_id, pkg)
        except BaseException as e:  # noqa: BLE001 - SyntaxError, ImportError, NameError ...
            c.import_errors[pkg] = f"{type(e).__name__}: {e}"
    return c


# --------------------------------------------------------------------------- structure extraction


def classes_of(mod):
    import betterproto

    msgs, enums = [], []
    for name, obj in vars(mod).items():
        if not isinstance(obj, type) or obj.__module__ != mod.__name__:
            continue
        if issubclass(obj, betterproto.Message):
            msgs.append(obj)
        elif issubclass(obj, betterproto.Enum):
            enums.append(obj)
    return msgs, enums


def instantiate(_cls_):
    """cls() from a frame without other locals: pydantic builds a deferred model lazily at first instantiation and
    resolves forward references against the *caller's* locals, so harness variable names must not leak in."""
    return _cls_()


def marker_of_message(cls) -> Optional[int]:
    import betterproto

    try:
        for f in dataclasses.fields(cls):
            n = betterproto.FieldMetadata.get(f).number
            if 20000 < n < 19000 + 100000 and f.name.startswith("mk"):
                return n
    except Exception:  # noqa: BLE001
        return None
    return None


def marker_of_enum(cls) -> Optional[int]:
    for m in cls:
        if 20000 < m.value < 119000:
            return m.value
    return None


def _hint_shape(h):
    """(cardinality, element hints) from a resolved type hint."""
    origin = getattr(h, "__origin__", None)
    args = getattr(h, "__args__", ())
    if origin is list:
        return "repeated", (args[0],)
    if origin is dict:
        return "map", (args[0], args[1])
    if origin is typing.Union or type(h).__name__ == "UnionType":
        inner = [a for a in args if a is not type(None)]
        return "optional", (inner[0],)
    return "single", (h,)


PY_OF = {"double": float, "float": float, "bool": bool, "string": str, "bytes": bytes}


def py_type_of(t: str):
    return PY_OF.get(t, int)


def describe_class(cls, by_class_marker) -> Dict[int, dict]:
    """{field number: description} of a generated message class, from dataclass metadata + resolved hints."""
    import betterproto

    mod = sys.modules[cls.__module__]
    hints = typing.get_type_hints(cls, vars(mod), {})
    out = {}
    for f in dataclasses.fields(cls):
        meta = betterproto.FieldMetadata.get(f)
        card, elems = _hint_shape(hints[f.name])
        d = {"name": f.name, "proto_type": meta.proto_type, "hint_card": card, "group": meta.group, "wraps": meta.wraps,
             "optional_flag": bool(meta.optional), "map_types": meta.map_types}

        def tname(h):
            o = getattr(h, "__origin__", None)
            if o is typing.Union or type(h).__name__ == "UnionType":  # e.g. List[Optional[int]] for repeated wrappers
                inner = [a for a in h.__args__ if a is not type(None)]
                if len(inner) == 1:
                    h = inner[0]
            if isinstance(h, dataclasses.Field):
                return ("shadowed_by_field", h.name)
            if isinstance(h, type) and (issubclass(h, betterproto.Message) or issubclass(h, betterproto.Enum)):
                mk = by_class_marker.get(h)
                return ("marker", mk) if mk is not None else ("class", f"{h.__module__}.{h.__qualname__}")
            return ("py", getattr(h, "__name__", str(h)))

        d["elems"] = [tname(e) for e in elems]
        out[meta.number] = d
    return out


def expected_fields(schema: Schema, mi: MI, marker_by_full: Dict[str, int]) -> Dict[int, dict]:
    """What the class must look like, from protoc's descriptors."""
    out = {}
    for fi in mi.fields:
        def elem(f: FI):
            if f.wkt == "timestamp":
                return ("py", "datetime")
            if f.wkt == "duration":
                return ("py", "timedelta")
            if f.wkt == "wrapper":
                return ("py", py_type_of(f.wraps).__name__)
            if f.type == "message":
                if f.msg in marker_by_full:
                    return ("marker", marker_by_full[f.msg])
                return ("class", f.msg)
            if f.type == "enum":
                if f.enum in marker_by_full:
                    return ("marker", marker_by_full[f.enum])
                return ("class", f.enum)
            return ("py", py_type_of(f.type).__name__)

        if fi.card == "map":
            d = {"proto_type": "map", "hint_card": "map", "map_types": (fi.key.type, fi.val.type), "elems": [elem(fi.key), elem(fi.val)],
                 "group": None, "wraps": None, "optional_flag": False}
        else:
            card = fi.card
            if fi.wkt == "wrapper" and card == "single":
                card = "optional"  # wrappers are exposed as Optional[scalar]
            d = {"proto_type": fi.type, "hint_card": card, "map_types": None, "elems": [elem(fi)], "group": fi.oneof,
                 "wraps": fi.wraps if fi.wkt == "wrapper" else None, "optional_flag": fi.card == "optional"}
        d["proto_name"] = fi.name
        out[fi.number] = d
    return out


def compare_fields(got: Dict[int, dict], want: Dict[int, dict], pydantic=False) -> List[Tuple[str, str]]:
    """[(clause, detail)] differences between a generated class and the schema."""
    out = []
    for n in sorted(set(want) - set(got)):
        out.append(("field_missing", f"number {n} ({want[n]['proto_name']}, {want[n]['proto_type']})"))
    for n in sorted(set(got) - set(want)):
        out.append(("field_extra", f"number {n} ({got[n]['name']})"))
    for n in sorted(set(got) & set(want)):
        g, w = got[n], want[n]
        if g["proto_type"] != w["proto_type"]:
            out.append(("field_proto_type", f"{w['proto_name']}={n}: {g['proto_type']} want {w['proto_type']}"))
            continue
        wc = w["hint_card"]
        gc = g["hint_card"]
        if pydantic and w["group"] and gc == "optional":
            gc = "single"  # pydantic oneof members are declared Optional by design
        if gc != wc:
            out.append(("field_cardinality", f"{w['proto_name']}={n} ({w['proto_type']}): hint says {g['hint_card']}, schema says {wc}"))
        if bool(g["optional_flag"]) != bool(w["optional_flag"]) and not (pydantic and w["group"]):
            out.append(("field_optional_flag", f"{w['proto_name']}={n}: optional={g['optional_flag']} want {w['optional_flag']}"))
        if (g["group"] or None) != (w["group"] or None):
            out.append(("field_oneof_group", f"{w['proto_name']}={n}: group={g['group']!r} want {w['group']!r}"))
        if w["proto_type"] == "map":
            if tuple(g["map_types"] or ()) != tuple(w["map_types"]):
                out.append(("map_key_value_types", f"{w['proto_name']}={n}: {g['map_types']} want {w['map_types']}"))
        gw = (g["wraps"] or None)
        if gw != (w["wraps"] or None):
            out.append(("field_wraps", f"{w['proto_name']}={n}: wraps={g['wraps']!r} want {w['wraps']!r}"))
        ge, we = list(g["elems"]), list(w["elems"])
        if len(ge) == len(we):
            for a, b in zip(ge, we):
                if a[0] == "shadowed_by_field":
                    out.append(("annotation_shadowed_by_field", f"{w['proto_name']}={n}: the annotation's type name {a[1]!r} is evaluated after a field of that name was assigned in the class body"))
                elif b[0] == "class":
                    # well-known / unmarked target: compare by trailing class name
                    if not (a[0] == "class" and a[1].split(".")[-1].lower().replace("_", "") == b[1].split(".")[-1].lower().replace("_", "")):
                        out.append(("field_target_type", f"{w['proto_name']}={n}: resolves to {a}, want {b}"))
                elif a != b:
                    out.append(("field_target_type", f"{w['proto_name']}={n}: resolves to {a}, want {b}"))
        else:
            out.append(("field_hint_shape", f"{w['proto_name']}={n}: {ge} want {we}"))
    return out
