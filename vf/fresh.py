"""Evaluate every case in a pristine process: a zygote that has imported everything but USED nothing forks per case.

Some properties only break after a particular HISTORY inside one interpreter (a cache filled by another class, a memo
keyed too coarsely, a buffer reused between calls).  For such checks the case is the whole history, and the evaluation
must be a pure function of it.  `Fresh(func_path)` starts `python -m vf.fresh <module>:<function>`; the zygote imports
the module, calls its optional `fresh_prepare()` (compile + import the corpus, touch nothing) and then, per request,
forks a child that evaluates `function(arg)` and sends the pickled result back.  The zygote itself never evaluates,
so every child starts from the same import-time state.
"""
from __future__ import annotations

import importlib
import os
import pickle
import struct
import subprocess
import sys


def _read_exact(fh, n):
    buf = b""
    while len(buf) < n:
        chunk = fh.read(n - len(buf))
        if not chunk:
            raise EOFError
        buf += chunk
    return buf


class FreshError(Exception):
    pass


class Fresh:
    def __init__(self, func_path: str):
        from . import env

        self.func_path = func_path
        self.proc = subprocess.Popen([env.PY, "-m", "vf.fresh", func_path], stdin=subprocess.PIPE, stdout=subprocess.PIPE,
                                     env=env.child_env({"PYTHONWARNINGS": "ignore::SyntaxWarning,ignore::DeprecationWarning"}))
        self.owner = os.getpid()

    def call(self, arg):
        data = pickle.dumps(arg)
        try:
            self.proc.stdin.write(struct.pack("<I", len(data)) + data)
            self.proc.stdin.flush()
            (n,) = struct.unpack("<I", _read_exact(self.proc.stdout, 4))
            kind, val = pickle.loads(_read_exact(self.proc.stdout, n))
        except (EOFError, BrokenPipeError, OSError) as e:
            raise FreshError(f"zygote for {self.func_path} died: {e!r}")
        if kind == "error":
            raise FreshError(val)
        return val

    def close(self):
        try:
            self.proc.stdin.close()
            self.proc.wait(timeout=10)
        except Exception:  # noqa: BLE001
            self.proc.kill()


_ZYGOTES = {}


def fresh_call(func_path: str, arg):
    """Process-wide zygote per function (re-created after a fork: a Pool worker must not share its parent's pipe)."""
    z = _ZYGOTES.get(func_path)
    if z is None or z.owner != os.getpid() or z.proc.poll() is not None:
        z = _ZYGOTES[func_path] = Fresh(func_path)
    return z.call(arg)


def _main(func_path: str) -> int:
    from . import env

    env.setup_path()
    env.check_tree()
    out = os.fdopen(os.dup(1), "wb")
    os.dup2(2, 1)  # nothing but the protocol goes to the pipe
    sys.stdout = sys.stderr
    inp = sys.stdin.buffer
    mod_name, fn_name = func_path.split(":")
    try:
        mod = importlib.import_module(mod_name)
        if hasattr(mod, "fresh_prepare"):
            mod.fresh_prepare()
        fn = getattr(mod, fn_name)
        boot_error = None
    except BaseException as e:  # noqa: BLE001
        import traceback

        boot_error = "zygote boot failed: " + "".join(traceback.format_exception(type(e), e, e.__traceback__))[-3000:]
    while True:
        try:
            (n,) = struct.unpack("<I", _read_exact(inp, 4))
            arg = pickle.loads(_read_exact(inp, n))
        except EOFError:
            return 0
        if boot_error:
            payload = pickle.dumps(("error", boot_error))
            out.write(struct.pack("<I", len(payload)) + payload)
            out.flush()
            continue
        r, w = os.pipe()
        pid = os.fork()
        if pid == 0:
            os.close(r)
            try:
                try:
                    res = ("ok", fn(arg))
                    payload = pickle.dumps(res)
                except BaseException as e:  # noqa: BLE001
                    import traceback

                    payload = pickle.dumps(("error", "".join(traceback.format_exception(type(e), e, e.__traceback__))[-3000:]))
                with os.fdopen(w, "wb") as fh:
                    fh.write(payload)
                if os.environ.get("COVERAGE_PROCESS_START"):  # tools/coverage_run.sh: os._exit skips atexit
                    try:
                        import coverage

                        cov = coverage.Coverage.current()
                        if cov is not None:
                            cov.stop()
                            cov.save()
                    except Exception:  # noqa: BLE001
                        pass
            finally:
                os._exit(0)
        os.close(w)
        with os.fdopen(r, "rb") as fh:
            payload = fh.read()
        os.waitpid(pid, 0)
        if not payload:
            payload = pickle.dumps(("error", "child died without a result (crash of the interpreter?)"))
        try:
            out.write(struct.pack("<I", len(payload)) + payload)
            out.flush()
        except BrokenPipeError:  # the requester is gone (its shard hit the time budget)
            return 0


if __name__ == "__main__":
    sys.exit(_main(sys.argv[1]))
