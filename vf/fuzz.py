"""Driver for the atheris targets under fuzz/: runs a bounded campaign in a subprocess and returns crash inputs."""
from __future__ import annotations

import glob
import os
import re
import shutil
import subprocess
from typing import List, Tuple

from . import env


def available() -> bool:
    try:
        cp = subprocess.run([env.PY, "-c", "import atheris"], env=env.child_env(), capture_output=True, timeout=60)
        return cp.returncode == 0
    except Exception:  # noqa: BLE001
        return False


def run_campaign(script: str, runs: int, seed: int, seeds: List[bytes], tag: str, max_len: int = 256, timeout: int = 1500) -> Tuple[int, List[bytes], str]:
    """-> (executions reported by libFuzzer, crash inputs, tail of the log). A fresh corpus dir per campaign."""
    work = os.path.join(env.work_dir(), f"fuzz_{tag}")
    shutil.rmtree(work, ignore_errors=True)
    corpus_dir = os.path.join(work, "corpus")
    crash_dir = os.path.join(work, "crashes")
    os.makedirs(corpus_dir)
    os.makedirs(crash_dir)
    for i, s in enumerate(seeds):
        with open(os.path.join(corpus_dir, f"seed{i}"), "wb") as fh:
            fh.write(s)
    cmd = [env.PY, os.path.join(env.VERIF, "fuzz", script), corpus_dir, f"-runs={runs}", f"-seed={seed or 1}", f"-max_len={max_len}",
           f"-artifact_prefix={crash_dir}/", "-print_final_stats=1"]
    try:
        cp = subprocess.run(cmd, env=env.child_env(), capture_output=True, text=True, timeout=timeout)
        log = cp.stderr[-3000:] + cp.stdout[-1000:]
    except subprocess.TimeoutExpired as e:
        log = "timeout (inconclusive): " + str(e)[-500:]
    m = re.search(r"stat::number_of_executed_units:\s*(\d+)", log)
    execs = int(m.group(1)) if m else 0
    crashes = []
    for p in sorted(glob.glob(os.path.join(crash_dir, "*"))):
        with open(p, "rb") as fh:
            crashes.append(fh.read())
    shutil.rmtree(work, ignore_errors=True)
    return execs, crashes, log
