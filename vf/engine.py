"""Search engine shared by all properties: survey pass, classification against the
known-findings file, pin (shrink) pass, replay, evidence.

A property module exposes `targets(ctx) -> list[Target]`.  A Target is a generated-input
search (Hypothesis strategy) or a finite enumeration (`cases`), plus an `evaluate(case)`
oracle returning an Eval.  `evaluate` never raises for a property failure: it *returns*
Failure records, so the search continues behind a shallow defect (collect -> classify ->
continue).  An exception escaping `evaluate` is a harness error (exit 2), never a VIOLATION.
"""
from __future__ import annotations

import hashlib
import json
import os
import random
import re
import sys
import time
import traceback
from collections import Counter
from dataclasses import dataclass, field
from typing import Any, Callable, Dict, Iterable, List, Optional

from . import env
from .values import canon, decanon


@dataclass
class Failure:
    clause: str
    sig: str
    detail: str = ""
    case: Any = None  # optional narrower witness than the evaluated (batch) case


@dataclass
class Eval:
    failures: List[Failure] = field(default_factory=list)
    nontrivial: bool = False
    labels: List[str] = field(default_factory=list)
    discard: Optional[str] = None  # reason the case was out of domain (counted, never an alarm)
    weight: int = 1  # number of underlying evaluations when the case is a batch (e.g. an integer range)
    nontrivial_count: Optional[int] = None  # batch cases: how many of the `weight` distinct members are non-trivial


@dataclass
class Target:
    name: str
    evaluate: Callable[[Any], Eval]
    strategy: Any = None  # hypothesis strategy producing JSON-able (after canon) cases
    cases: Optional[Callable[[], Iterable[Any]]] = None  # finite enumeration instead
    quick: int = 1000
    thorough: int = 10000  # per shard
    exhaustive: bool = False  # `cases` enumerates a finite sub-domain completely
    shard_cases: bool = True  # split `cases` over shards in thorough tier
    rule: str = ""
    stateful: Any = None  # callable(ctx, n_examples, seed) running a RuleBasedStateMachine survey
    pin_budget: int = 400  # max evaluate() calls while shrinking one signature
    pin_sigs: int = 5  # how many unlisted signatures get a shrink pass
    time_quick: float = 120.0
    time_thorough: float = 900.0
    # a callable performing operations that FAIL (see vf/props/_poison.py); when set, a seventh of the generated cases
    # carries "poison": True and the callable runs right before such a case is evaluated (also on replay)
    poison: Optional[Callable[[], None]] = None


class Guarded(Exception):
    """Raised by guard(): an exception from the code under test at a named place."""

    def __init__(self, where: str, exc: BaseException):
        super().__init__(f"{where}: {type(exc).__name__}: {exc}")
        self.where = where
        self.exc = exc


def guard(where: str, fn, *a, **kw):
    """Call code under test; convert its exceptions into Guarded (a property failure, not a harness error)."""
    from .values import OutOfDomain

    try:
        return fn(*a, **kw)
    except OutOfDomain:
        raise
    except Exception as e:  # noqa: BLE001 - anything the library raises (RecursionError too) is data for the oracle
        raise Guarded(where, e) from None


def collecting(fn):
    """Decorator for clause functions `fn(out, ...)`: clauses found before the code under test raised are
    kept, and the exception itself becomes one more clause `raises_<where>_<ExcType>`."""

    def wrapper(*a, **kw):
        out = []
        try:
            fn(out, *a, **kw)
        except Guarded as g:
            out.append((f"raises_{g.where}_{type(g.exc).__name__}", str(g)))
        return out

    wrapper.__name__ = getattr(fn, "__name__", "clauses")
    return wrapper


def evaluate(t: "Target", case) -> "Eval":
    """t.evaluate(case); a case the harness itself declares outside the property's domain is a counted discard."""
    from .values import OutOfDomain

    poisoned = t.poison is not None and isinstance(case, dict) and bool(case.get("poison"))
    if poisoned:
        t.poison()
    try:
        ev = t.evaluate(case)
    except OutOfDomain as e:
        return Eval(discard=str(e))
    if poisoned:
        ev.labels = list(ev.labels) + ["after_failed_operations"]
        for f in ev.failures:
            if isinstance(f.case, dict):
                f.case = dict(f.case, poison=True)
    return ev


def strategy_of(t: "Target"):
    """t.strategy, with the poison flag drawn for a seventh of the (dict) cases when the target has a poison."""
    if t.poison is None:
        return t.strategy
    from hypothesis import strategies as st

    return st.tuples(t.strategy, st.integers(0, 6)).map(lambda tc: dict(tc[0], poison=True) if tc[1] == 0 and isinstance(tc[0], dict) else tc[0])


def exc_sig(e: BaseException) -> str:
    return type(e).__name__


def short(s: Any, n: int = 300) -> str:
    s = s if isinstance(s, str) else repr(s)
    return s if len(s) <= n else s[:n] + "..."


class Collector:
    def __init__(self):
        self.evaluations = 0
        self.nontrivial_hashes = set()
        self.samples: List[Any] = []
        self.labels = Counter()
        self.discards = Counter()
        self.failures: Dict[str, dict] = {}  # sig -> {count, clause, target, first: case, detail}
        self.per_target = Counter()
        self.exhaustive: Dict[str, bool] = {}
        self.budget_hit: List[str] = []
        self.batch_nontrivial = 0  # distinct-by-construction members of batch cases
        self.target_wall = Counter()  # seconds spent per target (summed over shards)

    def add(self, target: str, case, ev: Eval, keep_samples: int = 4):
        self.evaluations += ev.weight
        self.per_target[target] += ev.weight
        if ev.discard:
            self.discards[ev.discard] += 1
            return
        for lab in ev.labels:
            self.labels[lab] += 1
        if ev.nontrivial_count is not None:
            self.batch_nontrivial += ev.nontrivial_count
            if ev.nontrivial_count and sum(1 for s in self.samples if s["target"] == target) < keep_samples:
                self.samples.append({"target": target, "case": canon(case)})
        elif ev.nontrivial:
            cj = json.dumps(canon(case), sort_keys=True, default=repr)
            h = hashlib.sha1(cj.encode()).hexdigest()[:16]
            if h not in self.nontrivial_hashes:
                self.nontrivial_hashes.add(h)
                n_t = sum(1 for s in self.samples if s["target"] == target)
                if n_t < keep_samples and len(cj) < 4000:
                    self.samples.append({"target": target, "case": json.loads(cj)})
        for f in ev.failures:
            rec = self.failures.get(f.sig)
            if f.case is not None:
                case = f.case
            if rec is None:
                self.failures[f.sig] = {
                    "count": 1,
                    "clause": f.clause,
                    "target": target,
                    "first": canon(case),
                    "detail": short(f.detail, 600),
                }
            else:
                rec["count"] += 1
                # keep the smallest witness seen
                cj = json.dumps(canon(case), sort_keys=True, default=repr)
                if len(cj) < len(json.dumps(rec["first"], sort_keys=True, default=repr)):
                    rec["first"] = canon(case)
                    rec["detail"] = short(f.detail, 600)

    def to_json(self) -> dict:
        return {
            "evaluations": self.evaluations,
            "nontrivial": sorted(self.nontrivial_hashes),
            "samples": self.samples,
            "labels": dict(self.labels),
            "discards": dict(self.discards),
            "failures": self.failures,
            "per_target": dict(self.per_target),
            "exhaustive": self.exhaustive,
            "budget_hit": self.budget_hit,
            "batch_nontrivial": self.batch_nontrivial,
            "target_wall": dict(self.target_wall),
        }

    def merge_json(self, d: dict):
        self.evaluations += d["evaluations"]
        self.nontrivial_hashes.update(d["nontrivial"])
        for s in d["samples"]:
            if sum(1 for x in self.samples if x["target"] == s["target"]) < 4:
                self.samples.append(s)
        self.labels.update(d["labels"])
        self.discards.update(d["discards"])
        self.per_target.update(d["per_target"])
        for k, v in d["exhaustive"].items():
            self.exhaustive[k] = self.exhaustive.get(k, True) and v
        self.budget_hit += d["budget_hit"]
        self.batch_nontrivial += d.get("batch_nontrivial", 0)
        self.target_wall.update(d.get("target_wall", {}))
        for sig, rec in d["failures"].items():
            cur = self.failures.get(sig)
            if cur is None:
                self.failures[sig] = rec
            else:
                cur["count"] += rec["count"]
                if len(json.dumps(rec["first"], default=repr)) < len(json.dumps(cur["first"], default=repr)):
                    cur["first"], cur["detail"] = rec["first"], rec["detail"]


@dataclass
class Ctx:
    pid: str
    tier: str
    seed: int
    shard: int = 0
    nshards: int = 1
    col: Collector = field(default_factory=Collector)
    extra: dict = field(default_factory=dict)  # property-specific evidence additions

    @property
    def thorough(self) -> bool:
        return self.tier == "thorough"


# ------------------------------------------------------------------------------ known findings


class Known:
    def __init__(self, path: Optional[str] = None):
        path = path or os.path.join(env.VERIF, "known_findings.json")
        self.entries = []
        self.fixed = []
        if os.path.exists(path):
            d = json.load(open(path))
            self.entries = d.get("findings", [])
            self.fixed = d.get("fixed", [])

    def match(self, pid: str, sig: str) -> Optional[dict]:
        for e in self.entries:
            if e["property"] == pid and re.fullmatch(e["signature"], sig):
                return e
        return None


# ------------------------------------------------------------------------------ running targets


def _hyp_settings(n: int, phases=None):
    from hypothesis import HealthCheck, Phase, settings

    return settings(
        max_examples=n,
        database=None,
        deadline=None,
        derandomize=False,
        report_multiple_bugs=False,
        suppress_health_check=list(HealthCheck),
        phases=phases or [Phase.generate],
    )


def run_target(ctx: Ctx, t: Target):
    t_start = time.time()
    try:
        _run_target(ctx, t)
    finally:
        ctx.col.target_wall[t.name] += round(time.time() - t_start, 2)


def _run_target(ctx: Ctx, t: Target):
    n = t.thorough if ctx.thorough else t.quick
    tlimit = t.time_thorough if ctx.thorough else t.time_quick
    t0 = time.time()
    if t.stateful is not None:
        t.stateful(ctx, n, ctx.seed * 1000 + ctx.shard)
        return
    if t.cases is not None:
        complete = True
        for i, case in enumerate(t.cases()):
            if t.shard_cases and ctx.nshards > 1 and i % ctx.nshards != ctx.shard:
                continue
            if t.exhaustive is False and ctx.col.per_target[t.name] >= n:
                complete = False
                break
            if time.time() - t0 > tlimit:
                complete = False
                ctx.col.budget_hit.append(t.name)
                break
            ctx.col.add(t.name, case, evaluate(t, case))
        ctx.col.exhaustive[t.name] = bool(t.exhaustive and complete)
        return
    if n <= 0:
        return
    from hypothesis import given, seed

    class _Stop(Exception):
        pass

    @seed(ctx.seed * 1000 + ctx.shard)
    @_hyp_settings(n)
    @given(strategy_of(t))
    def survey(case):
        if time.time() - t0 > tlimit:
            raise _Stop()
        ctx.col.add(t.name, case, evaluate(t, case))

    try:
        survey()
    except _Stop:
        ctx.col.budget_hit.append(t.name)


def pin(ctx: Ctx, t: Target, sig: str, first_case) -> Any:
    """Shrink inside one root cause: hypothesis.find on the same strategy, predicate = signature present."""
    if t.strategy is None:
        return first_case
    from hypothesis import Phase, find
    from hypothesis.errors import NoSuchExample

    calls = [0]
    best = [None]

    def pred(case):
        calls[0] += 1
        if calls[0] > t.pin_budget:
            return False
        ev = evaluate(t, case)
        hit = any(f.sig == sig for f in ev.failures)
        if hit:
            best[0] = case
        return hit

    try:
        find(
            strategy_of(t),
            pred,
            settings=_hyp_settings(max(50, min(t.pin_budget, 2000)), phases=[Phase.generate, Phase.shrink]),
            random=random.Random(ctx.seed * 1000 + ctx.shard),
        )
    except NoSuchExample:
        pass
    except Exception as e:  # shrinking is best effort (e.g. hypothesis Flaky*): keep the best witness so far
        print(f"  (pin: shrinking stopped early: {type(e).__name__})")
    if best[0] is not None:
        a = json.dumps(canon(best[0]), default=repr)
        b = json.dumps(first_case, default=repr)
        if len(a) <= len(b):
            return canon(best[0])
    return first_case


# ------------------------------------------------------------------------------ whole-check driver


def _worker(args):
    pid, tier, seed, shard, nshards = args
    from . import props

    mod = props.load(pid)
    ctx = Ctx(pid, tier, seed, shard, nshards)
    for t in mod.targets(ctx):
        run_target(ctx, t)
    return ctx.col.to_json(), ctx.extra


def run_check(pid: str, tier: str, seed: int, nshards: Optional[int] = None) -> int:
    from . import props

    t0 = time.time()
    mod = props.load(pid)
    known = Known()
    ctx = Ctx(pid, tier, seed)
    nshards = nshards or (getattr(mod, "THOROUGH_SHARDS", 16) if tier == "thorough" else getattr(mod, "QUICK_SHARDS", 1))
    targets = mod.targets(ctx)  # built in the parent too (needed for regress / pin / replay)
    tmap = {t.name: t for t in targets}

    # 1. regression cases first (seconds): saved minimal cases of fixed defects / mutant kills
    regress_failures = []
    n_regress = 0
    rdir = os.path.join(env.VERIF, "regress", pid)
    if os.path.isdir(rdir):
        for fn in sorted(os.listdir(rdir)):
            if not fn.endswith(".json"):
                continue
            rec = json.load(open(os.path.join(rdir, fn)))
            t = tmap.get(rec["target"])
            if t is None:
                continue
            n_regress += 1
            ev = evaluate(t, decanon(rec["case"]))
            ctx.col.add("regress:" + t.name, decanon(rec["case"]), ev)
            for f in ev.failures:
                if not known.match(pid, f.sig):
                    regress_failures.append((os.path.join(rdir, fn), f))

    # 2. survey
    if nshards > 1:
        import multiprocessing as mp

        with mp.get_context("fork").Pool(min(nshards, os.cpu_count() or 1)) as pool:
            for cj, extra in pool.imap_unordered(_worker, [(pid, tier, seed, s, nshards) for s in range(nshards)]):
                ctx.col.merge_json(cj)
                for k, v in extra.items():
                    if isinstance(v, (int, float)) and isinstance(ctx.extra.get(k), (int, float)):
                        ctx.extra[k] += v
                    elif isinstance(v, dict) and isinstance(ctx.extra.get(k), dict):
                        for kk, vv in v.items():
                            ctx.extra[k][kk] = ctx.extra[k].get(kk, 0) + vv if isinstance(vv, (int, float)) else vv
                    else:
                        ctx.extra.setdefault(k, v)
    else:
        for t in targets:
            run_target(ctx, t)

    # 3. classify
    col = ctx.col
    known_hits = {}
    unlisted = {}
    for sig, rec in sorted(col.failures.items()):
        e = known.match(pid, sig)
        if e is not None:
            k = e["what"]
            known_hits.setdefault(k, {"count": 0, "signatures": []})
            known_hits[k]["count"] += rec["count"]
            known_hits[k]["signatures"].append(sig)
        else:
            unlisted[sig] = rec
    for what in known_hits:
        print(f"KNOWN-FINDING: property={pid} {what}")

    # 4. pin + report unlisted
    violations = []
    os.makedirs(os.path.join(env.VERIF, "replays", pid), exist_ok=True)
    for path, f in regress_failures:
        print(f"VIOLATION property={pid} replay={path}")
        print(f"  regress case failed: clause={f.clause} sig={f.sig} :: {short(f.detail, 400)}")
        violations.append(f.sig)
    for i, (sig, rec) in enumerate(sorted(unlisted.items(), key=lambda kv: -kv[1]["count"])):
        if any(sig == v for v in violations):
            continue
        if i >= 25:  # every further signature is still counted, but not written out one by one
            violations.append(sig)
            continue
        tname = rec["target"].replace("regress:", "")
        t = tmap.get(tname)
        case = rec["first"]
        if t is not None and i < t.pin_sigs and not os.environ.get("VERIF_NO_PIN"):
            case = pin(ctx, t, sig, rec["first"])  # (VERIF_NO_PIN=1: report the first witness unshrunk - used by tools/run_seeded.py)
        h = hashlib.sha1(sig.encode()).hexdigest()[:12]
        path = os.path.join(env.VERIF, "replays", pid, f"{h}.json")
        with open(path, "w") as fh:
            json.dump({"property": pid, "target": tname, "signature": sig, "clause": rec["clause"],
                       "detail": rec["detail"], "count": rec["count"], "case": case}, fh, indent=1, default=repr)
        print(f"VIOLATION property={pid} replay={path}")
        print(f"  clause={rec['clause']} sig={sig} count={rec['count']} :: {short(rec['detail'], 400)}")
        violations.append(sig)

    if len(unlisted) > 25:
        print(f"  (+{len(unlisted) - 25} further unlisted signatures not written out)")
    # 5. evidence
    wall = time.time() - t0
    rule = getattr(mod, "RULE", "")
    ev = {
        "property_id": pid,
        "tier": tier,
        "seed": seed,
        "level": getattr(mod, "LEVEL", "exploration"),
        "coverage": {
            "evaluations": col.evaluations,
            "distinct_nontrivial": len(col.nontrivial_hashes) + col.batch_nontrivial,
            "rule": rule,
            "samples": col.samples[:12] or [{"note": "no non-trivial sample captured"}],
            "per_target": dict(col.per_target),
            "target_wall_s_summed_over_shards": {k: round(v, 1) for k, v in col.target_wall.items()},
            "class_distribution": dict(col.labels.most_common(200)),
            "discarded": dict(col.discards),
            "exhaustive_subdomains": {k: v for k, v in col.exhaustive.items()},
            "exhaustive": bool(col.exhaustive) and all(col.exhaustive.values()) and getattr(mod, "ALL_EXHAUSTIVE", False),
            "regress_cases": n_regress,
            "known_findings_seen": known_hits,
            "budget_hit_targets": sorted(set(col.budget_hit)),
            "shards": nshards,
        },
        "assumptions": getattr(mod, "ASSUMPTIONS", []),
        "wall_s": round(wall, 2),
        "violations": len(violations),
    }
    if ev["level"] == "translation_validation":
        # level-specific keys: programs translated and compared; disagreements (failure records, known or not) examined
        ev["coverage"]["programs"] = max(1, sum(v for k, v in col.per_target.items() if k in getattr(mod, "PROGRAM_TARGETS", ()) or not getattr(mod, "PROGRAM_TARGETS", ())))
        ev["coverage"]["disagreements_checked"] = sum(r["count"] for r in col.failures.values())
    ev["coverage"].update(ctx.extra)
    evdir = os.environ.get("VERIF_EVIDENCE_DIR") or os.path.join(env.VERIF, "evidence")
    os.makedirs(evdir, exist_ok=True)
    with open(os.path.join(evdir, f"{pid}.json"), "w") as fh:
        json.dump(ev, fh, indent=1, default=repr)
    print(
        f"[{pid}] tier={tier} seed={seed} evaluations={col.evaluations} nontrivial={len(col.nontrivial_hashes) + col.batch_nontrivial} "
        f"known={sum(v['count'] for v in known_hits.values())} violations={len(violations)} wall={wall:.1f}s"
    )
    return 1 if violations else 0


def run_replay(pid: str, path: str) -> int:
    from . import props

    mod = props.load(pid)
    ctx = Ctx(pid, "quick", env.seed())
    tmap = {t.name: t for t in mod.targets(ctx)}
    rec = json.load(open(path))
    t = tmap[rec["target"]]
    ev = evaluate(t, decanon(rec["case"]))
    known = Known()
    bad = [f for f in ev.failures if not known.match(pid, f.sig)]
    for f in ev.failures:
        print(f"  clause={f.clause} sig={f.sig} :: {short(f.detail, 600)}")
    if bad:
        print(f"VIOLATION property={pid} replay={path}")
        return 1
    print(f"[{pid}] replay {path}: holds ({len(ev.failures)} known-finding clause(s))")
    return 0
